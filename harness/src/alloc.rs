//! Counting global allocator: per-thread live bytes and call counts (resource meter of C18).

use std::alloc::{GlobalAlloc, Layout, System};
use std::cell::Cell;

thread_local! {
    static LIVE: Cell<i64> = const { Cell::new(0) };
    static ALLOCS: Cell<u64> = const { Cell::new(0) };
    static TRACK: Cell<bool> = const { Cell::new(false) };
}

pub struct Counting;

#[inline]
fn add(bytes: i64, call: bool) {
    let _ = TRACK.try_with(|t| {
        if t.get() {
            let _ = LIVE.try_with(|l| l.set(l.get() + bytes));
            if call {
                let _ = ALLOCS.try_with(|a| a.set(a.get() + 1));
            }
        }
    });
}

unsafe impl GlobalAlloc for Counting {
    unsafe fn alloc(&self, l: Layout) -> *mut u8 {
        let p = System.alloc(l);
        if !p.is_null() {
            add(l.size() as i64, true);
        }
        p
    }
    unsafe fn dealloc(&self, p: *mut u8, l: Layout) {
        System.dealloc(p, l);
        add(-(l.size() as i64), false);
    }
    unsafe fn alloc_zeroed(&self, l: Layout) -> *mut u8 {
        let p = System.alloc_zeroed(l);
        if !p.is_null() {
            add(l.size() as i64, true);
        }
        p
    }
    unsafe fn realloc(&self, p: *mut u8, l: Layout, new: usize) -> *mut u8 {
        let q = System.realloc(p, l, new);
        if !q.is_null() {
            add(new as i64 - l.size() as i64, true);
        }
        q
    }
}

/// start metering on this thread (counters reset)
pub fn start() {
    LIVE.with(|l| l.set(0));
    ALLOCS.with(|a| a.set(0));
    TRACK.with(|t| t.set(true));
}
pub fn stop() {
    TRACK.with(|t| t.set(false));
}
/// (live bytes since start, allocation calls since start)
pub fn read() -> (i64, u64) {
    (LIVE.with(|l| l.get()), ALLOCS.with(|a| a.get()))
}
