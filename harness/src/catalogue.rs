//! The catalogue of view kinds: parameters, domains, documented warm-up, ranges.

use crate::dynview::{BinK, Kind, MaK, Spec};
use crate::gen::Rng;

/// every unary wrapper kind that takes a window length, at window `n`
pub fn windowed(n: usize) -> Vec<Kind> {
    use Kind::*;
    vec![
        Sma(n),
        Ema(n),
        Alma(n),
        Cumulative(n),
        Min(n),
        Max(n),
        Welford(n),
        HL(n),
        Roc(n),
        BinEnt(n),
        Vst(n),
        Vsct(n),
        Rsi(n),
        MyRsi(n),
        Cog(n),
        Cti(n),
        Net(n),
        Cyber(n),
        LagRsi(n),
        ReFlex(n),
        TrendFlex(n),
        SuperSmoother(n),
    ]
}

/// every unary wrapper kind (windowed ones at `n`, the others with representative parameters)
pub fn all_unary(n: usize) -> Vec<Kind> {
    use Kind::*;
    let mut v = windowed(n);
    v.extend([
        EmaAlpha(n, 1.0),
        AlmaCustom(n, 2.0, 0.5),
        LagFilter(0.75),
        LagFilter(0.0),
        Roofing(n.max(2), (n / 2).max(1)),
        Gte(0.5),
        Lte(0.5),
        Tanh,
        Drawdown,
        LnReturn,
        WelfordRolling,
    ]);
    v
}

pub const BINS: [BinK; 4] = [BinK::Add, BinK::Subtract, BinK::Multiply, BinK::Divide];

/// smallest window length at which the view is meaningful (below it the constructor rejects, or
/// the view never produces output: excluded from *mandatory* coverage, still exercised by C15)
pub fn min_n(k: &Kind) -> usize {
    use Kind::*;
    match k {
        Cyber(_) => 1,
        LagRsi(_) => 2, // N = 1 gives gamma = 1: the ladder never moves, never any output
        ReFlex(_) => 2,
        Roofing(..) => 2,
        Cti(_) | Net(_) => 2,
        _ => 1,
    }
}
pub fn min_n_ma(k: MaK) -> usize {
    match k {
        MaK::Pfe => 3,
        MaK::Eft => 2,
    }
}

/// input domain restriction of a kind
pub fn needs_positive(k: &Kind) -> bool {
    matches!(k, Kind::Drawdown | Kind::LnReturn)
}

pub fn spec_needs_positive(s: &Spec) -> bool {
    match s {
        Spec::Un(k, i) => needs_positive(k) || spec_needs_positive(i),
        Spec::Tap(_, i) | Spec::Warm(_, i) => spec_needs_positive(i),
        Spec::Bin(_, a, b) => spec_needs_positive(a) || spec_needs_positive(b),
        Spec::Ma(_, _, v, m) => spec_needs_positive(v) || spec_needs_positive(m),
        _ => false,
    }
}

/// Is the kind's output guaranteed strictly positive for strictly positive input?  (used to keep
/// chains in-domain: only such kinds may sit *inside* Drawdown / LnReturn)
pub fn positive_preserving(k: &Kind) -> bool {
    use Kind::*;
    matches!(
        k,
        Sma(_) | Ema(_) | EmaAlpha(..) | Alma(_) | AlmaCustom(..) | Cumulative(_) | Min(_) | Max(_)
            | LagFilter(_)
    )
}

/// documented step (1-based count of delivered values) of the first output: (earliest, latest)
pub fn warmup(k: &Kind) -> Option<(usize, usize)> {
    use Kind::*;
    Some(match *k {
        Sma(n) | Ema(n) | EmaAlpha(n, _) | SuperSmoother(n) | Rsi(n) | MyRsi(n) => (n.max(1), n.max(1)),
        Roofing(n, m) => (n + m + 1, n + m + 1),
        LnReturn => (2, 2),
        Welford(n) | Vst(n) | Vsct(n) => (n.saturating_sub(1), n.max(1)),
        Min(_) | Max(_) | Cumulative(_) | Alma(_) | AlmaCustom(..) | Cog(_) | BinEnt(_) | Gte(_)
        | Lte(_) | Tanh | LagFilter(_) => (1, 1),
        _ => return None,
    })
}

/// documented closed output range, if any (C07)
pub fn range(k: &Kind) -> Option<(f64, f64)> {
    use Kind::*;
    Some(match *k {
        Rsi(_) => (0.0, 100.0),
        MyRsi(_) | HL(_) | Cti(_) | Net(_) | Tanh => (-1.0, 1.0),
        LagRsi(_) | BinEnt(_) => (0.0, 1.0),
        Welford(_) | WelfordRolling => (0.0, f64::INFINITY),
        Vsct(n) => {
            let b = (n as f64 - 1.0) / (n as f64).sqrt();
            (-b, b)
        }
        _ => return None,
    })
}

pub fn is_recursive(k: &Kind) -> bool {
    use Kind::*;
    matches!(
        k,
        Ema(_) | EmaAlpha(..) | LagFilter(_) | SuperSmoother(_) | Roofing(..) | Cyber(_) | TrendFlex(_)
            | ReFlex(_) | LagRsi(_)
    )
}

/// a random unary kind with window in [lo, hi] (respecting the kind's minimum)
pub fn random_unary(rng: &mut Rng, lo: usize, hi: usize) -> Kind {
    let n = rng.usize(lo, hi);
    let all = all_unary(n);
    let k = *rng.pick(&all);
    bump_n(k, n)
}

/// raise the window length to the kind's minimum if needed
pub fn bump_n(k: Kind, n: usize) -> Kind {
    let m = min_n(&k).max(n);
    with_n(k, m)
}

pub fn with_n(k: Kind, n: usize) -> Kind {
    use Kind::*;
    match k {
        Sma(_) => Sma(n),
        Ema(_) => Ema(n),
        EmaAlpha(_, a) => EmaAlpha(n, a),
        Alma(_) => Alma(n),
        AlmaCustom(_, s, o) => AlmaCustom(n, s, o),
        Cumulative(_) => Cumulative(n),
        Min(_) => Min(n),
        Max(_) => Max(n),
        Welford(_) => Welford(n),
        HL(_) => HL(n),
        Roc(_) => Roc(n),
        BinEnt(_) => BinEnt(n),
        Vst(_) => Vst(n),
        Vsct(_) => Vsct(n),
        Rsi(_) => Rsi(n),
        MyRsi(_) => MyRsi(n),
        Cog(_) => Cog(n),
        Cti(_) => Cti(n),
        Net(_) => Net(n),
        Cyber(_) => Cyber(n),
        LagRsi(_) => LagRsi(n),
        ReFlex(_) => ReFlex(n),
        TrendFlex(_) => TrendFlex(n),
        SuperSmoother(_) => SuperSmoother(n),
        Roofing(_, m) => Roofing(n, m),
        o => o,
    }
}

/// moving averages usable in the MA slot of PFE / EFT
pub fn ma_specs(n: usize) -> Vec<Spec> {
    vec![
        Spec::leaf(Kind::Ema(n.max(1))),
        Spec::leaf(Kind::Sma(n.max(1))),
        Spec::leaf(Kind::Alma(n.max(1))),
        Spec::Echo,
    ]
}

/// smoothers that are not plain averages (they overshoot): admissible in EFT's slot, whose bound
/// must hold whatever the smoother returns
pub fn overshooting_ma_specs(n: usize) -> Vec<Spec> {
    vec![Spec::leaf(Kind::SuperSmoother(n.max(1))), Spec::leaf(Kind::LagFilter(0.8125)), Spec::leaf(Kind::LagFilter(0.5))]
}
