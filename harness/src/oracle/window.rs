//! Batch reference models of the windowed views, written from the property statements
//! (C02, C04, C05, C06).  Generic over the scalar; monitors evaluate them at the exact scalar.
//!
//! Every function takes the *complete* input history and returns what the statement says the
//! output is after each step.

use crate::scalar::Scalar;

#[derive(Clone, Copy, Debug)]
pub enum Ex<T> {
    /// the statement says: this value
    Val(T),
    /// the statement says: no value can exist yet (e.g. Roc holding with nothing to hold)
    Nothing,
    /// the statement makes no claim about this step
    Skip,
}

pub fn win<T>(h: &[T], n: usize) -> &[T] {
    let n = n.max(1);
    &h[h.len().saturating_sub(n)..]
}
fn tn<T: Scalar>(n: usize) -> T {
    T::of(n as f64)
}
pub fn sum<T: Scalar>(w: &[T]) -> T {
    w.iter().fold(T::zero(), |a, b| a + *b)
}
pub fn mean<T: Scalar>(w: &[T]) -> T {
    sum(w) / tn(w.len())
}
pub fn min<T: Scalar>(w: &[T]) -> T {
    w.iter().fold(w[0], |a, b| if *b < a { *b } else { a })
}
pub fn max<T: Scalar>(w: &[T]) -> T {
    w.iter().fold(w[0], |a, b| if *b > a { *b } else { a })
}
/// sample variance (n-1); 0 for a single value
pub fn sample_var<T: Scalar>(w: &[T]) -> T {
    if w.len() < 2 {
        return T::zero();
    }
    let m = mean(w);
    let ss = w.iter().fold(T::zero(), |a, b| a + (*b - m) * (*b - m));
    ss / tn(w.len() - 1)
}
pub fn sample_std<T: Scalar>(w: &[T]) -> T {
    let v = sample_var(w);
    if v <= T::zero() {
        T::zero()
    } else {
        v.sqrt()
    }
}
pub fn hl<T: Scalar>(w: &[T]) -> T {
    let (lo, hi) = (min(w), max(w));
    if hi == lo {
        T::zero()
    } else {
        T::of(2.0) * (w[w.len() - 1] - lo) / (hi - lo) - T::one()
    }
}
pub fn entropy<T: Scalar>(w: &[T]) -> T {
    let pos = w.iter().filter(|x| **x >= T::zero()).count();
    if pos == 0 || pos == w.len() {
        return T::zero();
    }
    let p = tn::<T>(pos) / tn(w.len());
    let q = T::one() - p;
    -(p * p.log2() + q * q.log2())
}
pub fn vst<T: Scalar>(w: &[T]) -> T {
    let s = sample_std(w);
    let x = w[w.len() - 1];
    if s == T::zero() {
        x
    } else {
        x / s
    }
}
pub fn vsct<T: Scalar>(w: &[T]) -> T {
    let s = sample_std(w);
    let x = w[w.len() - 1];
    if s == T::zero() {
        T::zero()
    } else {
        (x - mean(w)) / s
    }
}

/// per-step windowed statistic
pub fn seq_window<T: Scalar>(xs: &[T], n: usize, f: impl Fn(&[T]) -> T) -> Vec<Ex<T>> {
    (0..xs.len())
        .map(|t| {
            // one step of the batch definition: its intermediate values are given back
            let m = T::mark();
            let mut v = f(win(&xs[..=t], n));
            T::release(m, &mut [&mut v]);
            Ex::Val(v)
        })
        .collect()
}

/// Roc: 100 (x_t - x_{t-N}) / x_{t-N}; base = first value while fewer than N+1 values exist;
/// previous output held when the base is 0
pub fn seq_roc<T: Scalar>(xs: &[T], n: usize) -> Vec<Ex<T>> {
    let mut out = Vec::with_capacity(xs.len());
    let mut held: Option<T> = None;
    for t in 0..xs.len() {
        let base = if t >= n { xs[t - n] } else { xs[0] };
        if base == T::zero() {
            out.push(match held {
                Some(v) => Ex::Val(v),
                None => Ex::Nothing,
            });
        } else {
            let v = T::of(100.0) * (xs[t] - base) / base;
            held = Some(v);
            out.push(Ex::Val(v));
        }
    }
    out
}

/// gains and losses over the N most recent values (d = 0 for the very first value)
pub fn gains_losses<T: Scalar>(xs: &[T], t: usize, n: usize) -> (T, T) {
    let lo = (t + 1).saturating_sub(n.max(1));
    let mut g = T::zero();
    let mut l = T::zero();
    for i in lo..=t {
        let d = if i == 0 { T::zero() } else { xs[i] - xs[i - 1] };
        if d > T::zero() {
            g = g + d;
        } else {
            l = l + d.abs();
        }
    }
    (g, l)
}
/// Rsi = 100 G/(G+L), 100 when L = 0, from the N-th value on
pub fn seq_rsi<T: Scalar>(xs: &[T], n: usize) -> Vec<Ex<T>> {
    (0..xs.len())
        .map(|t| {
            if t + 1 < n {
                return Ex::Nothing;
            }
            let m = T::mark();
            let (g, l) = gains_losses(xs, t, n);
            let mut v = if l == T::zero() { T::of(100.0) } else { T::of(100.0) * g / (g + l) };
            T::release(m, &mut [&mut v]);
            Ex::Val(v)
        })
        .collect()
}
/// MyRSI = (G-L)/(G+L), previous output kept while G+L = 0, from the N-th value on.
/// "Previous output" includes the values the running ratio took before the N-th value (which the
/// view computes but does not report); when there is none at all the statement makes no claim.
pub fn seq_myrsi<T: Scalar>(xs: &[T], n: usize) -> Vec<Ex<T>> {
    let mut out = Vec::with_capacity(xs.len());
    let mut held: Option<T> = None;
    for t in 0..xs.len() {
        let m = T::mark();
        let (g, l) = gains_losses(xs, t, n);
        if g + l != T::zero() {
            let mut v = (g - l) / (g + l);
            T::release(m, &mut [&mut v]);
            held = Some(v);
        } else {
            T::release(m, &mut []);
        }
        if t + 1 < n {
            out.push(Ex::Nothing);
        } else {
            out.push(match held {
                Some(v) => Ex::Val(v),
                None => Ex::Skip,
            });
        }
    }
    out
}

/// Pearson correlation between the window's values and their time index; 0 when a variance is 0
pub fn pearson_time<T: Scalar>(w: &[T]) -> T {
    let n = w.len();
    let mx = mean(w);
    let mi = tn::<T>(n - 1) / T::of(2.0);
    let mut sxy = T::zero();
    let mut sxx = T::zero();
    let mut syy = T::zero();
    for (i, x) in w.iter().enumerate() {
        let dx = *x - mx;
        let di = tn::<T>(i) - mi;
        sxy = sxy + dx * di;
        sxx = sxx + dx * dx;
        syy = syy + di * di;
    }
    if sxx <= T::zero() || syy <= T::zero() {
        return T::zero();
    }
    sxy / (sxx * syy).sqrt()
}
/// exact centred sum of squares of the window (conditioning of Pearson)
pub fn centred_ss<T: Scalar>(w: &[T]) -> T {
    let mx = mean(w);
    w.iter().fold(T::zero(), |a, x| a + (*x - mx) * (*x - mx))
}
/// Kendall tau-a between values and time: all n(n-1)/2 pairs, ties contribute 0
pub fn kendall_time<T: Scalar>(w: &[T]) -> T {
    let n = w.len();
    let mut s: i64 = 0;
    for j in 1..n {
        for i in 0..j {
            if w[j] > w[i] {
                s += 1;
            } else if w[j] < w[i] {
                s -= 1;
            }
        }
    }
    T::of(s as f64) / (T::of((n * (n - 1)) as f64) / T::of(2.0))
}
/// CoG = (n+1)/2 - sum_k k x_(t-k+1) / sum_k x_(t-k+1), k = 1 newest; 0 when the denominator is 0
pub fn cog<T: Scalar>(w: &[T]) -> T {
    let n = w.len();
    let mut num = T::zero();
    let mut den = T::zero();
    for (i, x) in w.iter().enumerate() {
        let k = n - i; // newest (i = n-1) has k = 1
        num = num + tn::<T>(k) * *x;
        den = den + *x;
    }
    if den == T::zero() {
        T::zero()
    } else {
        tn::<T>(n + 1) / T::of(2.0) - num / den
    }
}

/// Ema: e_0 = x_0, e_t = w x_t + (1-w) e_(t-1), w = alpha/(N+1)
pub fn seq_ema<T: Scalar>(xs: &[T], n: usize, alpha: T) -> Vec<Ex<T>> {
    let w = alpha / (tn::<T>(n) + T::one());
    let mut out = Vec::with_capacity(xs.len());
    let mut e = T::zero();
    for (t, x) in xs.iter().enumerate() {
        e = if t == 0 { *x } else { w * *x + (T::one() - w) * e };
        out.push(Ex::Val(e));
    }
    out
}

/// Gaussian kernel weight of position k: exp(-(k-m)^2 / (2 s^2)), m = offset (N+1), s = N/sigma
pub fn alma_weight<T: Scalar>(k: usize, n: usize, sigma: T, offset: T) -> T {
    let wl = tn::<T>(n);
    let m = offset * (wl + T::one());
    let s = wl / sigma;
    (-(tn::<T>(k) - m).powi(2) / (T::of(2.0) * s * s)).exp()
}
/// Alma, reading A: weight by position in the current window (k = 0 oldest)
pub fn alma_by_position<T: Scalar>(w: &[T], n: usize, sigma: T, offset: T) -> T {
    let mut num = T::zero();
    let mut den = T::zero();
    for (k, x) in w.iter().enumerate() {
        let g = alma_weight(k, n, sigma, offset);
        num = num + g * *x;
        den = den + g;
    }
    num / den
}
/// Alma, reading B: each sample keeps the weight of the position it was inserted at,
/// g(min(i, N-1)) for the i-th sample of the stream
pub fn alma_by_insertion<T: Scalar>(xs: &[T], t: usize, n: usize, sigma: T, offset: T) -> T {
    let lo = (t + 1).saturating_sub(n.max(1));
    let mut num = T::zero();
    let mut den = T::zero();
    for i in lo..=t {
        let g = alma_weight(i.min(n.max(1) - 1), n, sigma, offset);
        num = num + g * xs[i];
        den = den + g;
    }
    num / den
}
