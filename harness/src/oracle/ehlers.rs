//! Batch re-evaluation of the Ehlers-style indicators from the complete input history, written
//! from the statement of C11 (closed-form coefficients, difference equations of the cited papers)
//! and the crate conventions it names: window of N filter values including the current one, zero
//! or first-value initial state, lags that fall outside the window dropped.

use crate::scalar::Scalar;

fn tn<T: Scalar>(n: usize) -> T {
    T::of(n as f64)
}
fn c<T: Scalar>(f: f64) -> T {
    T::of(f)
}

/// (c1, c2, c3) of the two-pole smoother with a1 = exp(-k/N), b1 = 2 a1 cos(k/2 / N) ... given angles
fn smoother_coeffs<T: Scalar>(decay: T, angle: T) -> (T, T, T) {
    let a1 = (-decay).exp();
    let b1 = c::<T>(2.0) * a1 * angle.cos();
    let c3 = -a1 * a1;
    let c1 = T::one() - b1 - c3;
    (c1, b1, c3)
}

/// SuperSmoother: a1 = exp(-1.414 pi / N), b1 = 2 a1 cos(1.414 pi / N); zero initial state;
/// reports from the N-th value
pub fn super_smoother<T: Scalar>(xs: &[T], n: usize) -> Vec<Option<T>> {
    let th = c::<T>(1.414) * c::<T>(std::f64::consts::PI) / tn::<T>(n);
    let (c1, c2, c3) = smoother_coeffs(th, th);
    let mut out = Vec::with_capacity(xs.len());
    let (mut f1, mut f2, mut xp) = (T::zero(), T::zero(), T::zero());
    for (t, x) in xs.iter().enumerate() {
        let f = c1 * (*x + xp) / c::<T>(2.0) + c2 * f1 + c3 * f2;
        f2 = f1;
        f1 = f;
        xp = *x;
        out.push(if t + 1 >= n { Some(f) } else { None });
    }
    out
}

/// RoofingFilter(N, M): two-pole high-pass with alpha = (cos + sin - 1)/cos of 1.414 pi / N (zero
/// initial state), feeding a SuperSmoother(M) from the (N+2)-th value
pub fn roofing<T: Scalar>(xs: &[T], n: usize, m: usize) -> Vec<Option<T>> {
    let th = c::<T>(1.414) * c::<T>(std::f64::consts::PI) / tn::<T>(n);
    let alpha = (th.cos() + th.sin() - T::one()) / th.cos();
    let two = c::<T>(2.0);
    let k0 = (T::one() - alpha / two).powi(2);
    let k1 = two * (T::one() - alpha);
    let k2 = (T::one() - alpha).powi(2);
    let (mut x1, mut x2, mut h1, mut h2) = (T::zero(), T::zero(), T::zero(), T::zero());
    let mut hp_fed: Vec<T> = vec![];
    for (t, x) in xs.iter().enumerate() {
        let hp = k0 * (*x - two * x1 + x2) + k1 * h1 - k2 * h2;
        h2 = h1;
        h1 = hp;
        x2 = x1;
        x1 = *x;
        if t + 1 >= n + 2 {
            hp_fed.push(hp);
        }
    }
    let ss = super_smoother(&hp_fed, m);
    (0..xs.len()).map(|t| if t + 1 >= n + 2 { ss[t + 1 - (n + 2)] } else { None }).collect()
}

/// LaguerreFilter(gamma): all four stages start at the first value
pub fn laguerre_filter<T: Scalar>(xs: &[T], gamma: T) -> Vec<Option<T>> {
    let mut out = Vec::with_capacity(xs.len());
    let (mut l0, mut l1, mut l2, mut l3) = (T::zero(), T::zero(), T::zero(), T::zero());
    for (t, x) in xs.iter().enumerate() {
        if t == 0 {
            l0 = *x;
            l1 = *x;
            l2 = *x;
            l3 = *x;
        } else {
            let n0 = (T::one() - gamma) * *x + gamma * l0;
            let n1 = -gamma * n0 + l0 + gamma * l1;
            let n2 = -gamma * n1 + l1 + gamma * l2;
            let n3 = -gamma * n2 + l2 + gamma * l3;
            l0 = n0;
            l1 = n1;
            l2 = n2;
            l3 = n3;
        }
        out.push(Some((l0 + c::<T>(2.0) * l1 + c::<T>(2.0) * l2 + l3) / c::<T>(6.0)));
    }
    out
}

/// LaguerreRSI(N): gamma = 2/(N+1); the ladder starts from zero state with the third value;
/// CU/(CU+CD), previous output kept while CU+CD = 0.  Second component: CU+CD (conditioning).
pub fn laguerre_rsi<T: Scalar>(xs: &[T], n: usize) -> Vec<(Option<T>, T)> {
    let gamma = c::<T>(2.0) / (tn::<T>(n) + T::one());
    let mut out = Vec::with_capacity(xs.len());
    let (mut l0, mut l1, mut l2, mut l3) = (T::zero(), T::zero(), T::zero(), T::zero());
    let mut held: Option<T> = None;
    for (t, x) in xs.iter().enumerate() {
        if t < 2 {
            out.push((None, T::zero()));
            continue;
        }
        let n0 = (T::one() - gamma) * *x + gamma * l0;
        let n1 = -gamma * n0 + l0 + gamma * l1;
        let n2 = -gamma * n1 + l1 + gamma * l2;
        let n3 = -gamma * n2 + l2 + gamma * l3;
        l0 = n0;
        l1 = n1;
        l2 = n2;
        l3 = n3;
        let mut cu = T::zero();
        let mut cd = T::zero();
        for (a, b) in [(l0, l1), (l1, l2), (l2, l3)] {
            if a >= b {
                cu = cu + (a - b);
            } else {
                cd = cd + (b - a);
            }
        }
        if cu + cd != T::zero() {
            held = Some(cu / (cu + cd));
        }
        out.push((held, cu + cd));
    }
    out
}

/// CyberCycle(N): alpha = 2/(N+1).  Smooth = (P + 2 P[1] + 2 P[2] + P[3])/6,
/// Cycle = (1-a/2)^2 (Smooth - 2 Smooth[1] + Smooth[2]) + 2(1-a) Cycle[1] - (1-a)^2 Cycle[2];
/// the view keeps max(N, 6) prices (six are needed) and reports 0 until it has that many,
/// starting the recursion from zero state then
pub fn cyber_cycle<T: Scalar>(xs: &[T], n: usize) -> Vec<Option<T>> {
    let alpha = c::<T>(2.0) / (tn::<T>(n) + T::one());
    let two = c::<T>(2.0);
    let k0 = (T::one() - alpha / two).powi(2);
    let k1 = two * (T::one() - alpha);
    let k2 = (T::one() - alpha).powi(2);
    let need = n.max(6);
    let mut out: Vec<Option<T>> = Vec::with_capacity(xs.len());
    let (mut c1, mut c2) = (T::zero(), T::zero());
    for t in 0..xs.len() {
        if t + 1 < need {
            out.push(Some(T::zero()));
            continue;
        }
        let s = |lag: usize| -> T {
            let i = t - lag;
            (xs[i] + two * xs[i - 1] + two * xs[i - 2] + xs[i - 3]) / c::<T>(6.0)
        };
        let cc = k0 * (s(0) - two * s(1) + s(2)) + k1 * c1 - k2 * c2;
        c2 = c1;
        c1 = cc;
        out.push(Some(cc));
    }
    out
}

/// the smoother inside TrendFlex / ReFlex: a1 = exp(-8.88442402435/N), b1 = 2 a1 cos(4.44221201218/N);
/// x_(-1) = x_0; lags taken from the window of the N-1 previous filter values (dropped when N < 3)
fn flex_filter<T: Scalar>(xs: &[T], n: usize) -> Vec<T> {
    let (c1, b1, c3) = smoother_coeffs(c::<T>(8.88442402435) / tn::<T>(n), c::<T>(4.44221201218) / tn::<T>(n));
    let mut f: Vec<T> = Vec::with_capacity(xs.len());
    for t in 0..xs.len() {
        let xp = if t == 0 { xs[0] } else { xs[t - 1] };
        let avail = t.min(n.saturating_sub(1)); // previous filter values still in the window
        let mut v = c1 * (xs[t] + xp) / c::<T>(2.0);
        if avail >= 1 {
            v = v + b1 * f[t - 1];
        }
        if avail >= 2 {
            v = v + c3 * f[t - 2];
        }
        f.push(v);
    }
    f
}

/// TrendFlex(N): mean deviation of the current filter value from the N filter values of the
/// window, divided by the root of its 0.04/0.96 leaky mean square; 0 while that is 0.
/// Second component: the mean square (conditioning).
pub fn trend_flex<T: Scalar>(xs: &[T], n: usize) -> Vec<(Option<T>, T)> {
    let f = flex_filter(xs, n);
    let mut ms = T::zero();
    let mut out = Vec::with_capacity(xs.len());
    for t in 0..xs.len() {
        let lo = (t + 1).saturating_sub(n);
        let mut sum = T::zero();
        for j in lo..=t {
            sum = sum + (f[t] - f[j]);
        }
        sum = sum / tn::<T>(n);
        ms = c::<T>(0.04) * sum * sum + c::<T>(0.96) * ms;
        out.push((Some(if ms > T::zero() { sum / ms.sqrt() } else { T::zero() }), ms));
    }
    out
}

/// ReFlex(N): as TrendFlex with the slope-corrected deviation; output kept while the mean square is 0
pub fn re_flex<T: Scalar>(xs: &[T], n: usize) -> Vec<(Option<T>, T)> {
    let f = flex_filter(xs, n);
    let mut ms = T::zero();
    let mut held: Option<T> = None;
    let mut out = Vec::with_capacity(xs.len());
    for t in 0..xs.len() {
        let lo = (t + 1).saturating_sub(n);
        let slope = (f[lo] - f[t]) / tn::<T>(n);
        let mut sum = T::zero();
        for j in lo..=t {
            let i = t - j;
            sum = sum + ((f[t] + tn::<T>(i) * slope) - f[j]);
        }
        sum = sum / tn::<T>(n);
        ms = c::<T>(0.04) * sum * sum + c::<T>(0.96) * ms;
        if ms > T::zero() {
            held = Some(sum / ms.sqrt());
        }
        out.push((held, ms));
    }
    out
}

/// a moving average usable in the MA slot, as a reference model
#[derive(Clone, Copy, Debug, PartialEq)]
pub enum RefMa {
    Echo,
    Sma(usize),
    Ema(usize),
}
struct MaState<T> {
    kind: RefMa,
    hist: Vec<T>,
    e: T,
}
impl<T: Scalar> MaState<T> {
    fn new(kind: RefMa) -> Self {
        MaState { kind, hist: vec![], e: T::zero() }
    }
    fn update(&mut self, v: T) {
        if let RefMa::Ema(n) = self.kind {
            let w = c::<T>(2.0) / (tn::<T>(n) + T::one());
            self.e = if self.hist.is_empty() { v } else { w * v + (T::one() - w) * self.e };
        }
        self.hist.push(v);
    }
    fn last(&self) -> Option<T> {
        match self.kind {
            RefMa::Echo => self.hist.last().copied(),
            RefMa::Sma(n) => {
                if self.hist.len() < n {
                    None
                } else {
                    let w = &self.hist[self.hist.len() - n.max(1)..];
                    Some(w.iter().fold(T::zero(), |a, b| a + *b) / tn::<T>(w.len()))
                }
            }
            RefMa::Ema(n) => {
                if self.hist.len() < n || self.hist.is_empty() {
                    None
                } else {
                    Some(self.e)
                }
            }
        }
    }
}

/// EhlersFisherTransform(N, MA): min-max normalisation over the window to [-1,1], smoothing by
/// the MA, clamp to +-0.99, fish = 0.5 ln((1+v)/(1-v)) + 0.5 previous; 0 while the window is flat
/// (which also restarts the recursion) and nothing new while the MA is not ready
pub fn fisher<T: Scalar>(xs: &[T], n: usize, ma: RefMa) -> Vec<Option<T>> {
    let mut m = MaState::new(ma);
    let mut prev: Option<T> = None;
    let mut out = Vec::with_capacity(xs.len());
    let half = c::<T>(0.5);
    for t in 0..xs.len() {
        let w = &xs[(t + 1).saturating_sub(n)..=t];
        let hi = w.iter().fold(w[0], |a, b| if *b > a { *b } else { a });
        let lo = w.iter().fold(w[0], |a, b| if *b < a { *b } else { a });
        if hi == lo {
            prev = Some(T::zero());
            out.push(prev);
            continue;
        }
        let v = c::<T>(2.0) * ((xs[t] - lo) / (hi - lo) - half);
        m.update(v);
        if let Some(s) = m.last() {
            let lim = c::<T>(0.99);
            let s = if s > lim {
                lim
            } else if s < -lim {
                -lim
            } else {
                s
            };
            let p = prev.unwrap_or_else(T::zero);
            prev = Some(half * ((T::one() + s) / (T::one() - s)).ln() + half * p);
        }
        out.push(prev);
    }
    out
}

/// PolarizedFractalEfficiency(N, MA): MA of the signed ratio of sqrt((x_t - x_(t-N+1))^2 + N^2)
/// to the summed sqrt(d^2 + 1) over the window's N-2 most recent steps (negative when the last
/// step is down)
pub fn pfe<T: Scalar>(xs: &[T], n: usize, ma: RefMa) -> Vec<Option<T>> {
    let mut m = MaState::new(ma);
    let mut out = Vec::with_capacity(xs.len());
    let mut cur: Option<T> = None;
    for t in 0..xs.len() {
        if t + 1 >= n {
            let w = &xs[t + 1 - n..=t];
            let mut s = T::zero();
            for i in 0..n - 2 {
                let d = w[n - 1 - i] - w[n - 2 - i];
                s = s + (d * d + T::one()).sqrt();
            }
            let span = w[n - 1] - w[0];
            let mut p = (span * span + tn::<T>(n) * tn::<T>(n)).sqrt() / s;
            if w[n - 1] < w[n - 2] {
                p = -p;
            }
            m.update(p);
            cur = m.last();
        }
        out.push(cur);
    }
    out
}
