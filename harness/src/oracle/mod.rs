//! Reference models written from the property statements (never from the code).
pub mod window;
pub mod ehlers;
