//! `Xq`: an exact rational scalar implementing `num::Float`.
//!
//! A `Copy` handle into a thread-local arena of `BigRational`s, plus NaN / +inf / -inf so that
//! x/0 is an observable value rather than a panic.  +, -, *, /, comparisons, powi, abs, floor...
//! are exact.  `sqrt` is exact on perfect squares.  Every other irrational function goes through
//! f64 (nearest f64 of the exact argument, libm function, exact rational image of the f64 result):
//! a deterministic function of the exact argument, so that the crate's code and an oracle that
//! call the same function on algebraically equal arguments obtain the identical rational.
//!
//! There is no negative zero: `signum(0) = +1`, `x/0 = +inf` for x > 0 (what f64 does for +0).

use num::bigint::{BigInt, Sign};
use num::rational::BigRational;
use num::traits::{Num, NumCast, One, ToPrimitive, Zero};
use num::{Float, Signed};
use std::cell::{Cell, RefCell};
use std::cmp::Ordering;
use std::num::FpCategory;

thread_local! {
    static ARENA: RefCell<Vec<BigRational>> = RefCell::new(Vec::new());
    static BLOWN: Cell<bool> = Cell::new(false);
    static MAXBITS: Cell<u64> = Cell::new(0);
    static OPS: Cell<u64> = Cell::new(0);
    static PEAK: Cell<usize> = Cell::new(0);
    static SINCE: Cell<Option<std::time::Instant>> = Cell::new(None);
}

/// wall-clock allowance (seconds, 0 = none) for the exact arithmetic between two `reset`s; set by
/// the quick tier.  A tree on which an accumulator that should return to a small value does not
/// makes the rationals grow step by step, and every operation on them slower; such a trial is
/// ended as inconclusive (like the size caps) so that the rest of the plan still runs.
pub static SECONDS_PER_TRIAL: std::sync::atomic::AtomicU64 = std::sync::atomic::AtomicU64::new(0);

/// bit-size above which a trial is declared inconclusive (numbers still work, just slowly)
pub const BIT_CAP: u64 = 120_000;
/// arena entries above which a trial is declared inconclusive
pub const ARENA_CAP: usize = 40_000_000;

const NAN: u32 = 0;
const PINF: u32 = 1;
const NINF: u32 = 2;
const BASE: u32 = 3;

#[derive(Clone, Copy)]
pub struct Xq(u32);

#[derive(Clone, Debug)]
pub enum Val {
    Nan,
    PInf,
    NInf,
    Fin(BigRational),
}

/// Reset the arena of the current thread.  All outstanding `Xq` handles become invalid.
pub fn reset() {
    ARENA.with(|a| {
        let mut a = a.borrow_mut();
        a.clear();
        if a.capacity() > 1 << 22 {
            a.shrink_to(1 << 16);
        }
    });
    BLOWN.with(|b| b.set(false));
    MAXBITS.with(|b| b.set(0));
    OPS.with(|b| b.set(0));
    PEAK.with(|b| b.set(0));
    SINCE.with(|b| b.set(None));
}
/// largest number of arena entries alive at once since the last `reset`
pub fn peak() -> usize {
    PEAK.with(|b| b.get())
}
/// Position of the arena: every handle created from now on can be given back with `release`.
pub fn mark() -> usize {
    ARENA.with(|a| a.borrow().len())
}
/// Give back everything created since `mark`, except the values in `keep`, which are moved down
/// (their handles are rewritten).  Every other handle created since `mark` becomes invalid: only
/// for code that provably holds none (an oracle evaluating one step of a batch definition).
pub fn release(mark: usize, keep: &mut [&mut Xq]) {
    ARENA.with(|a| {
        let mut a = a.borrow_mut();
        if a.len() <= mark {
            return;
        }
        let kept: Vec<Option<BigRational>> = keep.iter().map(|h| if h.0 >= BASE && (h.0 - BASE) as usize >= mark { Some(a[(h.0 - BASE) as usize].clone()) } else { None }).collect();
        a.truncate(mark);
        for (h, r) in keep.iter_mut().zip(kept) {
            if let Some(r) = r {
                a.push(r);
                **h = Xq(BASE + (a.len() - 1) as u32);
            }
        }
    })
}
/// Gives back, when dropped, every exact value created since it was made (see `release`).
pub struct Scope(usize);
impl Scope {
    pub fn new() -> Scope {
        Scope(mark())
    }
}
impl Drop for Scope {
    fn drop(&mut self) {
        release(self.0, &mut []);
    }
}
/// Run `f`, which must return nothing that holds a handle (plain floats, booleans), and give back
/// every exact value it created.
pub fn scoped<R>(f: impl FnOnce() -> R) -> R {
    let m = mark();
    let r = f();
    release(m, &mut []);
    r
}
pub fn blown() -> bool {
    BLOWN.with(|b| b.get())
}
pub fn max_bits() -> u64 {
    MAXBITS.with(|b| b.get())
}
pub fn arena_len() -> usize {
    ARENA.with(|a| a.borrow().len())
}

fn push(r: BigRational) -> Xq {
    let bits = r.numer().bits() + r.denom().bits();
    // (the clock is read only for numbers that are already large, once in 256 of them)
    if bits > 4096 {
        let lim = SECONDS_PER_TRIAL.load(std::sync::atomic::Ordering::Relaxed);
        if lim > 0 && OPS.with(|o| o.get()) % 256 == 0 {
            let t0 = SINCE.with(|s| {
                if s.get().is_none() {
                    s.set(Some(std::time::Instant::now()));
                }
                s.get().unwrap()
            });
            if t0.elapsed().as_secs() >= lim {
                BLOWN.with(|b| b.set(true));
                panic!("XQ-BLOWN: exact arithmetic on numbers beyond 4096 bits for more than {} s in one trial", lim);
            }
        }
    }
    MAXBITS.with(|m| {
        if bits > m.get() {
            m.set(bits)
        }
    });
    if bits > BIT_CAP {
        BLOWN.with(|b| b.set(true));
        // unwinds out of the trial; the runner records it as inconclusive (never a verdict)
        panic!("XQ-BLOWN: exact rational grew beyond {} bits", BIT_CAP);
    }
    ARENA.with(|a| {
        let mut a = a.borrow_mut();
        if a.len() > ARENA_CAP {
            BLOWN.with(|b| b.set(true));
            drop(a);
            panic!("XQ-BLOWN: arena beyond {} entries", ARENA_CAP);
        }
        a.push(r);
        let n = a.len();
        PEAK.with(|p| {
            if n > p.get() {
                p.set(n)
            }
        });
        Xq(BASE + (n - 1) as u32)
    })
}

pub fn ratio_from_f64(f: f64) -> Option<BigRational> {
    BigRational::from_float(f)
}

pub fn ratio_to_f64(r: &BigRational) -> f64 {
    // correctly rounded enough and, what matters, deterministic
    if r.is_zero() {
        return 0.0;
    }
    let nb = r.numer().bits() as i64;
    let db = r.denom().bits() as i64;
    // scale so that the integer quotient has ~ 64+ significant bits
    let shift = 70 - (nb - db);
    let (n, d) = if shift >= 0 {
        (r.numer() << (shift as usize), r.denom().clone())
    } else {
        (r.numer().clone(), r.denom() << ((-shift) as usize))
    };
    let q: BigInt = &n / &d;
    // q has about 70 bits; convert top bits
    let qf = q.to_f64().unwrap_or(f64::NAN);
    // qf * 2^-shift
    let mut e = -shift;
    let mut out = qf;
    while e > 900 {
        out *= 2f64.powi(900);
        e -= 900;
    }
    while e < -900 {
        out *= 2f64.powi(-900);
        e += 900;
    }
    out * 2f64.powi(e as i32)
}

impl Xq {
    pub fn val(self) -> Val {
        match self.0 {
            NAN => Val::Nan,
            PINF => Val::PInf,
            NINF => Val::NInf,
            i => ARENA.with(|a| Val::Fin(a.borrow()[(i - BASE) as usize].clone())),
        }
    }
    pub fn from_ratio(r: BigRational) -> Xq {
        push(r)
    }
    pub fn from_val(v: Val) -> Xq {
        match v {
            Val::Nan => Xq(NAN),
            Val::PInf => Xq(PINF),
            Val::NInf => Xq(NINF),
            Val::Fin(r) => push(r),
        }
    }
    pub fn ratio(self) -> Option<BigRational> {
        match self.val() {
            Val::Fin(r) => Some(r),
            _ => None,
        }
    }
    pub fn from_f64_exact(f: f64) -> Xq {
        if f.is_nan() {
            Xq(NAN)
        } else if f == f64::INFINITY {
            Xq(PINF)
        } else if f == f64::NEG_INFINITY {
            Xq(NINF)
        } else {
            push(BigRational::from_float(f).unwrap())
        }
    }
    pub fn from_i64(i: i64) -> Xq {
        push(BigRational::from_integer(BigInt::from(i)))
    }
    pub fn frac(n: i64, d: i64) -> Xq {
        push(BigRational::new(BigInt::from(n), BigInt::from(d)))
    }
    pub fn approx(self) -> f64 {
        match self.val() {
            Val::Nan => f64::NAN,
            Val::PInf => f64::INFINITY,
            Val::NInf => f64::NEG_INFINITY,
            Val::Fin(r) => ratio_to_f64(&r),
        }
    }
    fn via(self, f: fn(f64) -> f64) -> Xq {
        Xq::from_f64_exact(f(self.approx()))
    }
    fn sign_i(self) -> i32 {
        // -1, 0, 1 ; NaN -> 2
        match self.0 {
            NAN => 2,
            PINF => 1,
            NINF => -1,
            i => ARENA.with(|a| {
                let a = a.borrow();
                let r = &a[(i - BASE) as usize];
                if r.is_zero() {
                    0
                } else if r.is_positive() {
                    1
                } else {
                    -1
                }
            }),
        }
    }
}

fn exact_sqrt(r: &BigRational) -> Option<BigRational> {
    if r.is_negative() {
        return None;
    }
    let n = r.numer().sqrt();
    let d = r.denom().sqrt();
    if &(&n * &n) == r.numer() && &(&d * &d) == r.denom() {
        Some(BigRational::new(n, d))
    } else {
        None
    }
}

/// The square root function of the `Xq` scalar on exact rationals (shared by code and oracles).
pub fn sqrt_ratio(r: &BigRational) -> Val {
    if r.is_negative() {
        return Val::Nan;
    }
    if let Some(s) = exact_sqrt(r) {
        return Val::Fin(s);
    }
    // values far outside f64's range (an exact scalar never underflows) are scaled by an even
    // power of two first, so that the root is taken in f64's comfortable range
    let lg = r.numer().bits() as i64 - r.denom().bits() as i64;
    let k: i64 = if lg.abs() > 600 { lg / 2 } else { 0 };
    let scaled = if k == 0 { r.clone() } else { r * pow2(-2 * k) };
    let f = ratio_to_f64(&scaled).sqrt();
    match ratio_from_f64(f) {
        Some(x) => Val::Fin(if k == 0 { x } else { x * pow2(k) }),
        None => {
            if f.is_nan() {
                Val::Nan
            } else {
                Val::PInf
            }
        }
    }
}

impl std::fmt::Debug for Xq {
    fn fmt(&self, f: &mut std::fmt::Formatter<'_>) -> std::fmt::Result {
        match self.val() {
            Val::Fin(r) => {
                if r.numer().bits() + r.denom().bits() < 96 {
                    write!(f, "{}", r)
                } else {
                    write!(f, "~{:e}", ratio_to_f64(&r))
                }
            }
            Val::Nan => write!(f, "NaN"),
            Val::PInf => write!(f, "inf"),
            Val::NInf => write!(f, "-inf"),
        }
    }
}
impl std::fmt::Display for Xq {
    fn fmt(&self, f: &mut std::fmt::Formatter<'_>) -> std::fmt::Result {
        std::fmt::Debug::fmt(self, f)
    }
}
impl Default for Xq {
    fn default() -> Self {
        Xq::zero()
    }
}

impl PartialEq for Xq {
    fn eq(&self, o: &Xq) -> bool {
        self.partial_cmp(o) == Some(Ordering::Equal)
    }
}
impl PartialOrd for Xq {
    fn partial_cmp(&self, o: &Xq) -> Option<Ordering> {
        if self.0 == NAN || o.0 == NAN {
            return None;
        }
        if self.0 >= BASE && o.0 >= BASE {
            if self.0 == o.0 {
                return Some(Ordering::Equal);
            }
            return ARENA.with(|a| {
                let a = a.borrow();
                a[(self.0 - BASE) as usize].partial_cmp(&a[(o.0 - BASE) as usize])
            });
        }
        let rank = |x: &Xq| match x.0 {
            PINF => 2,
            NINF => -2,
            _ => 0,
        };
        Some(rank(self).cmp(&rank(o)))
    }
}

fn bin(a: Xq, b: Xq, f: impl FnOnce(&BigRational, &BigRational) -> BigRational) -> Xq {
    OPS.with(|o| o.set(o.get() + 1));
    let r = ARENA.with(|ar| {
        let ar = ar.borrow();
        f(&ar[(a.0 - BASE) as usize], &ar[(b.0 - BASE) as usize])
    });
    push(r)
}

impl std::ops::Add for Xq {
    type Output = Xq;
    fn add(self, o: Xq) -> Xq {
        if self.0 >= BASE && o.0 >= BASE {
            return bin(self, o, |x, y| x + y);
        }
        match (self.0, o.0) {
            (NAN, _) | (_, NAN) => Xq(NAN),
            (PINF, NINF) | (NINF, PINF) => Xq(NAN),
            (PINF, _) | (_, PINF) => Xq(PINF),
            _ => Xq(NINF),
        }
    }
}
impl std::ops::Neg for Xq {
    type Output = Xq;
    fn neg(self) -> Xq {
        match self.0 {
            NAN => Xq(NAN),
            PINF => Xq(NINF),
            NINF => Xq(PINF),
            i => {
                let r = ARENA.with(|a| -&a.borrow()[(i - BASE) as usize]);
                push(r)
            }
        }
    }
}
impl std::ops::Sub for Xq {
    type Output = Xq;
    fn sub(self, o: Xq) -> Xq {
        if self.0 >= BASE && o.0 >= BASE {
            return bin(self, o, |x, y| x - y);
        }
        self + (-o)
    }
}
impl std::ops::Mul for Xq {
    type Output = Xq;
    fn mul(self, o: Xq) -> Xq {
        if self.0 >= BASE && o.0 >= BASE {
            return bin(self, o, |x, y| x * y);
        }
        let (s, t) = (self.sign_i(), o.sign_i());
        if s == 2 || t == 2 || s == 0 || t == 0 {
            // NaN involved, or 0 * inf
            return Xq(NAN);
        }
        if s * t > 0 {
            Xq(PINF)
        } else {
            Xq(NINF)
        }
    }
}
impl std::ops::Div for Xq {
    type Output = Xq;
    fn div(self, o: Xq) -> Xq {
        let (s, t) = (self.sign_i(), o.sign_i());
        if s == 2 || t == 2 {
            return Xq(NAN);
        }
        let a_inf = self.0 == PINF || self.0 == NINF;
        let b_inf = o.0 == PINF || o.0 == NINF;
        match (a_inf, b_inf) {
            (true, true) => Xq(NAN),
            (true, false) => {
                let t = if t == 0 { 1 } else { t };
                if s * t > 0 {
                    Xq(PINF)
                } else {
                    Xq(NINF)
                }
            }
            (false, true) => Xq::zero(),
            (false, false) => {
                if t == 0 {
                    if s == 0 {
                        Xq(NAN)
                    } else if s > 0 {
                        Xq(PINF)
                    } else {
                        Xq(NINF)
                    }
                } else {
                    bin(self, o, |x, y| x / y)
                }
            }
        }
    }
}
impl std::ops::Rem for Xq {
    type Output = Xq;
    fn rem(self, o: Xq) -> Xq {
        if self.0 >= BASE && o.0 >= BASE && o.sign_i() != 0 {
            return bin(self, o, |x, y| x % y);
        }
        if self.0 >= BASE && (o.0 == PINF || o.0 == NINF) {
            return self;
        }
        Xq(NAN)
    }
}
macro_rules! assign {
    ($tr:ident, $m:ident, $op:tt) => {
        impl std::ops::$tr for Xq {
            fn $m(&mut self, o: Xq) {
                *self = *self $op o;
            }
        }
    };
}
assign!(AddAssign, add_assign, +);
assign!(SubAssign, sub_assign, -);
assign!(MulAssign, mul_assign, *);
assign!(DivAssign, div_assign, /);
assign!(RemAssign, rem_assign, %);

impl std::iter::Sum for Xq {
    fn sum<I: Iterator<Item = Xq>>(iter: I) -> Xq {
        iter.fold(Xq::zero(), |a, b| a + b)
    }
}
impl<'a> std::iter::Sum<&'a Xq> for Xq {
    fn sum<I: Iterator<Item = &'a Xq>>(iter: I) -> Xq {
        iter.fold(Xq::zero(), |a, b| a + *b)
    }
}
impl std::iter::Product for Xq {
    fn product<I: Iterator<Item = Xq>>(iter: I) -> Xq {
        iter.fold(Xq::one(), |a, b| a * b)
    }
}

impl Zero for Xq {
    fn zero() -> Xq {
        push(BigRational::zero())
    }
    fn is_zero(&self) -> bool {
        self.sign_i() == 0
    }
}
impl One for Xq {
    fn one() -> Xq {
        push(BigRational::one())
    }
}
impl Num for Xq {
    type FromStrRadixErr = ();
    fn from_str_radix(s: &str, radix: u32) -> Result<Xq, ()> {
        if radix != 10 {
            return Err(());
        }
        s.parse::<f64>().map(Xq::from_f64_exact).map_err(|_| ())
    }
}
impl ToPrimitive for Xq {
    fn to_i64(&self) -> Option<i64> {
        self.ratio().and_then(|r| r.to_integer().to_i64())
    }
    fn to_u64(&self) -> Option<u64> {
        self.ratio().and_then(|r| r.to_integer().to_u64())
    }
    fn to_f64(&self) -> Option<f64> {
        Some(self.approx())
    }
    fn to_f32(&self) -> Option<f32> {
        Some(self.approx() as f32)
    }
}
impl NumCast for Xq {
    fn from<N: ToPrimitive>(n: N) -> Option<Xq> {
        n.to_f64().map(Xq::from_f64_exact)
    }
}

fn pow2(e: i64) -> BigRational {
    let one = BigInt::one();
    if e >= 0 {
        BigRational::from_integer(one << (e as usize))
    } else {
        BigRational::new(one.clone(), one << ((-e) as usize))
    }
}

macro_rules! via_f64 {
    ($($name:ident),*) => { $( fn $name(self) -> Xq { self.via(f64::$name) } )* };
}

impl Float for Xq {
    fn nan() -> Xq {
        Xq(NAN)
    }
    fn infinity() -> Xq {
        Xq(PINF)
    }
    fn neg_infinity() -> Xq {
        Xq(NINF)
    }
    fn neg_zero() -> Xq {
        Xq::zero()
    }
    fn min_value() -> Xq {
        push(-pow2(1100))
    }
    fn min_positive_value() -> Xq {
        push(pow2(-1100))
    }
    fn epsilon() -> Xq {
        push(pow2(-1100))
    }
    fn max_value() -> Xq {
        push(pow2(1100))
    }
    fn is_nan(self) -> bool {
        self.0 == NAN
    }
    fn is_infinite(self) -> bool {
        self.0 == PINF || self.0 == NINF
    }
    fn is_finite(self) -> bool {
        self.0 >= BASE
    }
    fn is_normal(self) -> bool {
        self.0 >= BASE && self.sign_i() != 0
    }
    fn classify(self) -> FpCategory {
        match self.0 {
            NAN => FpCategory::Nan,
            PINF | NINF => FpCategory::Infinite,
            _ => {
                if self.sign_i() == 0 {
                    FpCategory::Zero
                } else {
                    FpCategory::Normal
                }
            }
        }
    }
    fn floor(self) -> Xq {
        match self.val() {
            Val::Fin(r) => push(r.floor()),
            _ => self,
        }
    }
    fn ceil(self) -> Xq {
        match self.val() {
            Val::Fin(r) => push(r.ceil()),
            _ => self,
        }
    }
    fn round(self) -> Xq {
        match self.val() {
            Val::Fin(r) => push(r.round()),
            _ => self,
        }
    }
    fn trunc(self) -> Xq {
        match self.val() {
            Val::Fin(r) => push(r.trunc()),
            _ => self,
        }
    }
    fn fract(self) -> Xq {
        match self.val() {
            Val::Fin(r) => push(r.fract()),
            _ => Xq(NAN),
        }
    }
    fn abs(self) -> Xq {
        match self.sign_i() {
            2 => Xq(NAN),
            -1 => -self,
            _ => self,
        }
    }
    fn signum(self) -> Xq {
        match self.sign_i() {
            2 => Xq(NAN),
            -1 => -Xq::one(),
            _ => Xq::one(),
        }
    }
    fn is_sign_positive(self) -> bool {
        matches!(self.sign_i(), 0 | 1)
    }
    fn is_sign_negative(self) -> bool {
        self.sign_i() == -1
    }
    fn mul_add(self, a: Xq, b: Xq) -> Xq {
        self * a + b
    }
    fn recip(self) -> Xq {
        Xq::one() / self
    }
    fn powi(self, n: i32) -> Xq {
        match self.val() {
            Val::Fin(r) => {
                if n >= 0 {
                    push(num::pow::pow(r, n as usize))
                } else if r.is_zero() {
                    Xq(PINF)
                } else {
                    push(num::pow::pow(r.recip(), (-(n as i64)) as usize))
                }
            }
            _ => Xq::from_f64_exact(self.approx().powi(n)),
        }
    }
    fn powf(self, n: Xq) -> Xq {
        Xq::from_f64_exact(self.approx().powf(n.approx()))
    }
    fn sqrt(self) -> Xq {
        match self.val() {
            Val::Fin(r) => Xq::from_val(sqrt_ratio(&r)),
            Val::PInf => Xq(PINF),
            _ => Xq(NAN),
        }
    }
    via_f64!(
        exp, exp2, ln, log2, log10, cbrt, sin, cos, tan, asin, acos, atan, exp_m1, ln_1p, sinh,
        cosh, tanh, asinh, acosh, atanh
    );
    fn log(self, base: Xq) -> Xq {
        Xq::from_f64_exact(self.approx().log(base.approx()))
    }
    fn max(self, o: Xq) -> Xq {
        if self.0 == NAN {
            return o;
        }
        if o.0 == NAN {
            return self;
        }
        if self >= o {
            self
        } else {
            o
        }
    }
    fn min(self, o: Xq) -> Xq {
        if self.0 == NAN {
            return o;
        }
        if o.0 == NAN {
            return self;
        }
        if self <= o {
            self
        } else {
            o
        }
    }
    fn abs_sub(self, o: Xq) -> Xq {
        if self <= o {
            Xq::zero()
        } else {
            self - o
        }
    }
    fn hypot(self, o: Xq) -> Xq {
        (self * self + o * o).sqrt()
    }
    fn atan2(self, o: Xq) -> Xq {
        Xq::from_f64_exact(self.approx().atan2(o.approx()))
    }
    fn sin_cos(self) -> (Xq, Xq) {
        (self.sin(), self.cos())
    }
    fn integer_decode(self) -> (u64, i16, i8) {
        Float::integer_decode(self.approx())
    }
}

/// sign helper used by oracles (three-way)
pub fn sign3(r: &BigRational) -> i32 {
    match r.numer().sign() {
        Sign::Minus => -1,
        Sign::NoSign => 0,
        Sign::Plus => 1,
    }
}
