//! C01 — chaining: a wrapper sees exactly its inner view's outputs; every raw input reaches every
//! leaf exactly once per update, in order; combining nodes report only when both children do.
//!
//! Relation between executions (bit identity, `to_bits`):
//!   (i)   the chain B(A(Echo)) fed the raw inputs
//!   (ii)  a stand-alone A(Echo) fed the raw inputs
//!   (iii) a stand-alone B(Echo) fed A's output at the steps where A has one
//!   (iv)  B(Script(outputs of ii)) fed the raw inputs   (exposes a wrapper peeking at raw values)

use super::{drive, hash_str, mix, show_inputs};
use crate::catalogue::{self, all_unary, BINS};
use crate::dynview::{build, build_plain, BinK, Env, Kind, MaK, Spec};
use crate::gen::{self, Class, Rng};
use crate::report::{Cfg, Monitor, TrialOut};
use crate::scalar::{same_opt, show_opt, Scalar};
use crate::xq::Xq;
use sliding_features::View;

pub struct C01;

const NS_QUICK: [usize; 4] = [1, 2, 3, 7];
const CLASSES: [Class; 6] = [
    Class::Walk,
    Class::SmallInt,
    Class::Uniform,
    Class::Blocks,
    Class::Spike,
    Class::ZeroSum,
];

fn inputs_for(spec: &Spec, class: Class, n: usize, len: usize, rng: &mut Rng) -> Vec<f64> {
    let xs = gen::gen(class, n, len, rng);
    if catalogue::spec_needs_positive(spec) {
        gen::positive(&xs)
    } else {
        xs
    }
}

/// One inner view in four is not fresh when the wrapper is constructed over it: it has already been
/// given 1..2n+2 values (so its last() reports a value before the wrapper's first update), and one in
/// sixteen is a Constant leaf (which reports its value from construction).  A wrapper still sees
/// exactly the outputs the inner view produces from then on - nothing else.
fn seasoned(a: Spec, class: Class, n: usize, rng: &mut Rng) -> Spec {
    match rng.below(16) {
        0..=3 => {
            let k = rng.usize(1, 2 * n + 2);
            // (strictly positive, so that the chain stays in the domain of any outer view)
            let w = gen::positive(&gen::gen(class, n, k, rng));
            Spec::Warm(w, Box::new(a))
        }
        4 => Spec::Constant(*rng.pick(&[1.5, -0.75, 3.0, 100.0])),
        _ => a,
    }
}

fn finite_prefix<T: Scalar>(outs: &[Option<T>]) -> usize {
    outs.iter()
        .position(|o| matches!(o, Some(v) if !v.is_finite()))
        .unwrap_or(outs.len())
}

/// (a)/(f): outer unary `b` over inner spec `a`
fn unary_pair<T: Scalar>(b: Kind, a: &Spec, class: Class, len: usize, rng: &mut Rng, out: &mut TrialOut) {
    let chain = Spec::un(b, a.clone());
    let n = b.n().unwrap_or(4);
    let xs = inputs_for(&chain, class, n, len, rng);
    let cell = format!("wrap/{}", b.name());
    out.key(mix(hash_str(&chain.show()), gen::hash_f64s(&xs)));
    // (ii)
    let a_outs = drive::<T>(&mut build_plain(a), &xs);
    let upto = finite_prefix(&a_outs);
    if upto < xs.len() {
        out.count("trials_truncated_at_nonfinite_inner_output", 1);
    }
    // (i)
    let mut v_i = build_plain::<T>(&chain);
    // (iii)
    let mut v_iii = build_plain::<T>(&Spec::leaf(b));
    // (iv)
    let mut env = Env::<T>::new();
    let sid = env.add_script(a_outs.clone());
    let mut v_iv = build(&Spec::un(b, Spec::Script(sid)), &mut env);
    // (v) the same outer over the same scripted inner outputs, but handed OTHER raw inputs (zeros of
    // both signs, negatives, huge and tiny values): a wrapper sees its inner view's outputs, never
    // the raw input, so nothing may change
    let sid5 = env.add_script(a_outs.clone());
    let mut v_v = build(&Spec::un(b, Spec::Script(sid5)), &mut env);
    const OTHER: [f64; 8] = [0.0, -0.0, -1.5, 1.0e30, 0.0, 3.25, -7.0e-30, 0.0];
    let phase = rng.usize(0, 7);
    let mut somes = 0;
    for i in 0..upto {
        let x = T::of(xs[i]);
        v_i.update(x);
        if let Some(ao) = a_outs[i] {
            v_iii.update(ao);
        }
        v_iv.update(x);
        v_v.update(T::of(OTHER[(i + phase) % 8]));
        let (r1, r3, r4) = (v_i.last(), v_iii.last(), v_iv.last());
        out.cell(&cell, 1);
        if r1.is_some() {
            somes += 1;
        }
        let r5 = v_v.last();
        if !same_opt(r4, r5) {
            out.violation(
                b.name(),
                "wrapper-ignores-raw-input",
                "any",
                format!(
                    "{} over Script(inner outputs) at {}: step {}: fed the chain's raw inputs it reports {}, fed other raw inputs ({:?}, ...) it reports {}; the scripted inner output at this step = {}",
                    Spec::leaf(b).show(),
                    T::NAME,
                    i,
                    show_opt(r4),
                    OTHER[(i + phase) % 8],
                    show_opt(r5),
                    show_opt(a_outs[i])
                ),
            );
            return;
        }
        if !(same_opt(r1, r3) && same_opt(r1, r4)) {
            out.violation(
                b.name(),
                "wrapper-sees-inner-output",
                "any",
                format!(
                    "{} at {}: step {}: chain = {}, stand-alone outer fed inner's outputs = {}, outer over Script(inner outputs) = {}; inner output at this step = {}\n{}",
                    chain.show(),
                    T::NAME,
                    i,
                    show_opt(r1),
                    show_opt(r3),
                    show_opt(r4),
                    show_opt(a_outs[i]),
                    show_inputs(&xs, i, 24)
                ),
            );
            return;
        }
    }
    out.count("chain_steps_with_output", somes);
    // the Script leaf must have been handed every raw input exactly once, in order
    let fed = env.scripts[sid].1.borrow();
    out.cell("leaf-delivery/script", 1);
    if fed.len() != upto || fed.iter().zip(xs.iter()).any(|(f, x)| !f.same(T::of(*x))) {
        out.violation(
            b.name(),
            "leaf-delivery",
            "any",
            format!(
                "{} at {}: inner leaf received {} updates for {} outer updates (or different values)",
                chain.show(),
                T::NAME,
                fed.len(),
                upto
            ),
        );
    }
    if out.trial % 211 == 0 {
        out.sample(format!(
            "{} at {} on class {:?}, {} steps (first outputs {:?})",
            chain.show(),
            T::NAME,
            class,
            upto,
            (0..upto.min(6)).map(|i| show_opt(a_outs[i])).collect::<Vec<_>>()
        ));
    }
}

/// (b) binary combinator over two real children
fn binary_pair<T: Scalar>(k: BinK, a1: &Spec, a2: &Spec, class: Class, len: usize, rng: &mut Rng, out: &mut TrialOut) {
    let chain = Spec::bin(k, a1.clone(), a2.clone());
    let xs0 = inputs_for(&chain, class, 4, len, rng);
    let xs = if k == BinK::Divide { gen::nonzero(&xs0) } else { xs0 };
    let cell = format!("combine/{:?}", k);
    out.key(mix(hash_str(&chain.show()), gen::hash_f64s(&xs)));
    let o1 = drive::<T>(&mut build_plain(a1), &xs);
    let o2 = drive::<T>(&mut build_plain(a2), &xs);
    let upto = finite_prefix(&o1).min(finite_prefix(&o2));
    let mut v_i = build_plain::<T>(&chain);
    let mut env = Env::<T>::new();
    let s1 = env.add_script(o1.clone());
    let s2 = env.add_script(o2.clone());
    let mut v_iv = build(&Spec::bin(k, Spec::Script(s1), Spec::Script(s2)), &mut env);
    for i in 0..upto {
        let x = T::of(xs[i]);
        v_i.update(x);
        v_iv.update(x);
        let exp = match (o1[i], o2[i]) {
            (Some(a), Some(b)) => Some(match k {
                BinK::Add => a + b,
                BinK::Subtract => a - b,
                BinK::Multiply => a * b,
                BinK::Divide => a / b,
            }),
            _ => None,
        };
        let (r1, r4) = (v_i.last(), v_iv.last());
        out.cell(&cell, 1);
        if o1[i].is_some() != o2[i].is_some() {
            out.count("combine_steps_exactly_one_child_ready", 1);
        }
        if !(same_opt(r1, exp) && same_opt(r4, exp)) {
            out.violation(
                &format!("{:?}", k),
                "combines-children-outputs",
                "any",
                format!(
                    "{} at {}: step {}: tree = {}, over Scripts = {}, expected from stand-alone children ({}, {}) = {}\n{}",
                    chain.show(),
                    T::NAME,
                    i,
                    show_opt(r1),
                    show_opt(r4),
                    show_opt(o1[i]),
                    show_opt(o2[i]),
                    show_opt(exp),
                    show_inputs(&xs, i, 24)
                ),
            );
            return;
        }
    }
}

/// (c) the moving-average slot of PFE / EFT
fn ma_slot<T: Scalar>(mk: MaK, n: usize, m: &Spec, class: Class, len: usize, rng: &mut Rng, out: &mut TrialOut) {
    let host = Spec::ma(mk, n, Spec::Echo, m.clone());
    let xs = gen::gen(class, n, len, rng);
    let cell = format!("ma-slot/{:?}", mk);
    out.key(mix(hash_str(&host.show()), gen::hash_f64s(&xs)));
    // what is the slot fed?  (Probe as the MA)
    let mut env = Env::<T>::new();
    let mut with_probe = build(&Spec::ma(mk, n, Spec::Echo, Spec::Probe(0)), &mut env);
    let mut fed_count = vec![];
    for x in &xs {
        with_probe.update(T::of(*x));
        fed_count.push(env.probes[0].borrow().len());
    }
    let fed: Vec<T> = env.probes[0].borrow().clone();
    out.cell(&cell, 1);
    if let Some(i) = (0..fed_count.len()).find(|&i| fed_count[i] > if i == 0 { 0 } else { fed_count[i - 1] } + 1) {
        out.violation(
            &host.top(),
            "ma-slot-fed-once-per-update",
            "any",
            format!("{} at {}: step {}: the moving-average slot was updated {} times during one update of the host\n{}", host.show(), T::NAME, i, fed_count[i] - if i == 0 { 0 } else { fed_count[i - 1] }, show_inputs(&xs, i, 24)),
        );
        return;
    }
    // PFE smooths the efficiency of every full window: from the N-th value on its slot is fed on
    // every update, whether or not the efficiency repeats (EFT legitimately skips a flat window)
    if mk == MaK::Pfe {
        out.cell("ma-slot/Pfe/fed-on-every-full-window", 1);
        if let Some(i) = (n - 1..xs.len()).find(|&i| fed_count[i] != i + 2 - n) {
            out.violation(
                &host.top(),
                "ma-slot-fed-once-per-update",
                "any",
                format!("{} at {}: step {}: the moving-average slot has been updated {} times for {} full windows\n{}", host.show(), T::NAME, i, fed_count[i], i + 2 - n, show_inputs(&xs, i, 24)),
            );
            return;
        }
    }
    if fed.iter().any(|v| !v.is_finite()) {
        out.inconclusive("ma-slot fed non-finite");
        return;
    }
    // stand-alone M fed exactly that sequence
    let mut m_alone = build_plain::<T>(m);
    let mut m_outs = vec![];
    for p in &fed {
        m_alone.update(*p);
        m_outs.push(m_alone.last());
    }
    // host over the real M, host over Script(M's outputs)
    let mut v_i = build_plain::<T>(&host);
    let mut env2 = Env::<T>::new();
    let sid = env2.add_script(m_outs.clone());
    let mut v_iv = build(&Spec::ma(mk, n, Spec::Echo, Spec::Script(sid)), &mut env2);
    // and a Tap on the real M inside the host: exactly one update per step in which the host fed it
    let mut env3 = Env::<T>::new();
    let mut v_tap = build(&Spec::ma(mk, n, Spec::Echo, Spec::tap(0, m.clone())), &mut env3);
    for i in 0..xs.len() {
        let x = T::of(xs[i]);
        v_i.update(x);
        v_iv.update(x);
        v_tap.update(x);
        let (r1, r4, r5) = (v_i.last(), v_iv.last(), v_tap.last());
        out.cell(&cell, 1);
        let taps = env3.taps[0].borrow().len();
        if !(same_opt(r1, r4) && same_opt(r1, r5)) || taps != fed_count[i] {
            out.violation(
                &host.top(),
                "ma-slot-sees-only-its-inputs",
                "any",
                format!(
                    "{} at {}: step {}: host over M = {}, host over Script(M outputs) = {}, host over Tap(M) = {}; M updates so far {} vs slot feeds {}\n{}",
                    host.show(),
                    T::NAME,
                    i,
                    show_opt(r1),
                    show_opt(r4),
                    show_opt(r5),
                    taps,
                    fed_count[i],
                    show_inputs(&xs, i, 24)
                ),
            );
            return;
        }
    }
    // the values the real M was fed are the values the Probe saw
    let tapped: Vec<T> = env3.taps[0].borrow().iter().map(|(a, _)| *a).collect();
    out.cell(&cell, 1);
    if tapped.len() != fed.len() || tapped.iter().zip(fed.iter()).any(|(a, b)| !a.same(*b)) {
        out.violation(
            &host.top(),
            "ma-slot-feed-independent-of-ma",
            "any",
            format!("{} at {}: values fed to the MA slot depend on the MA", host.show(), T::NAME),
        );
    }
    out.count("ma_slot_feeds", fed.len() as u64);
}

/// (d) the view slot of PFE / EFT
fn ma_view_slot<T: Scalar>(mk: MaK, n: usize, a: &Spec, class: Class, len: usize, rng: &mut Rng, out: &mut TrialOut) {
    let m = Spec::leaf(Kind::Ema(3));
    let chain = Spec::ma(mk, n, a.clone(), m.clone());
    let xs = inputs_for(&chain, class, n, len, rng);
    let cell = format!("wrap/{}", chain.top());
    out.key(mix(hash_str(&chain.show()), gen::hash_f64s(&xs)));
    let a_outs = drive::<T>(&mut build_plain(a), &xs);
    let upto = finite_prefix(&a_outs);
    let mut v_i = build_plain::<T>(&chain);
    let mut v_iii = build_plain::<T>(&Spec::ma(mk, n, Spec::Echo, m.clone()));
    let mut env = Env::<T>::new();
    let sid = env.add_script(a_outs.clone());
    let mut v_iv = build(&Spec::ma(mk, n, Spec::Script(sid), m.clone()), &mut env);
    for i in 0..upto {
        let x = T::of(xs[i]);
        v_i.update(x);
        if let Some(ao) = a_outs[i] {
            v_iii.update(ao);
        }
        v_iv.update(x);
        let (r1, r3, r4) = (v_i.last(), v_iii.last(), v_iv.last());
        out.cell(&cell, 1);
        if !(same_opt(r1, r3) && same_opt(r1, r4)) {
            out.violation(
                &chain.top(),
                "wrapper-sees-inner-output",
                "any",
                format!(
                    "{} at {}: step {}: chain = {}, stand-alone = {}, over Script = {}\n{}",
                    chain.show(),
                    T::NAME,
                    i,
                    show_opt(r1),
                    show_opt(r3),
                    show_opt(r4),
                    show_inputs(&xs, i, 24)
                ),
            );
            return;
        }
    }
}

/// (e) random tree with Probe leaves: every leaf logs every raw input exactly once, in order
fn random_tree(rng: &mut Rng, depth: usize, next_probe: &mut usize) -> Spec {
    if depth == 0 || rng.chance(1, 6) {
        let id = *next_probe;
        *next_probe += 1;
        return Spec::Probe(id);
    }
    match rng.below(10) {
        0..=5 => {
            let k = catalogue::random_unary(rng, 1, 9);
            Spec::un(k, random_tree(rng, depth - 1, next_probe))
        }
        6..=8 => {
            let k = *rng.pick(&BINS);
            Spec::bin(k, random_tree(rng, depth - 1, next_probe), random_tree(rng, depth - 1, next_probe))
        }
        _ => {
            let mk = if rng.coin() { MaK::Pfe } else { MaK::Eft };
            let n = rng.usize(3, 8);
            Spec::ma(mk, n, random_tree(rng, depth - 1, next_probe), Spec::leaf(Kind::Ema(rng.usize(1, 4))))
        }
    }
}
fn leaf_delivery<T: Scalar>(rng: &mut Rng, len: usize, out: &mut TrialOut) {
    let mut np = 0;
    let depth = rng.usize(1, 3);
    let spec = random_tree(rng, depth, &mut np);
    let class = *rng.pick(&CLASSES);
    // positive non-zero inputs keep Drawdown / LnReturn / Divide nodes in domain; delivery does not
    // depend on values, the tree is never asked for last()
    let xs = gen::positive(&gen::gen(class, 4, len, rng));
    out.key(mix(hash_str(&spec.show()), gen::hash_f64s(&xs)));
    let mut env = Env::<T>::new();
    let mut v = build(&spec, &mut env);
    let ask_last = rng.coin();
    for x in &xs {
        v.update(T::of(*x));
        if ask_last {
            let _ = v.last();
        }
    }
    for (pi, log) in env.probes.iter().enumerate() {
        let log = log.borrow();
        out.cell("leaf-delivery/probe", 1);
        let ok = log.len() == xs.len() && log.iter().zip(xs.iter()).all(|(a, b)| a.same(T::of(*b)));
        if !ok {
            let firstbad = log
                .iter()
                .zip(xs.iter())
                .position(|(a, b)| !a.same(T::of(*b)))
                .unwrap_or(log.len().min(xs.len()));
            out.violation(
                &spec.top(),
                "leaf-delivery",
                "any",
                format!(
                    "{} at {}: leaf Probe#{} logged {} values for {} updates; first difference at {}\n{}",
                    spec.show(),
                    T::NAME,
                    pi,
                    log.len(),
                    xs.len(),
                    firstbad,
                    show_inputs(&xs, firstbad.min(xs.len().saturating_sub(1)), 12)
                ),
            );
            return;
        }
    }
    out.count("probe_leaves_checked", env.probes.len() as u64);
    if out.trial % 53 == 0 {
        out.sample(format!("leaf delivery: {} ({} leaves, {} updates)", spec.show(), env.probes.len(), xs.len()));
    }
}

#[derive(Clone, Copy)]
enum Sect {
    Pairs,
    Bins,
    MaSlot,
    MaView,
    Leaves,
    Triples,
}

fn sections(cfg: &Cfg) -> Vec<(Sect, u64)> {
    let u = all_unary(3).len() as u64;
    let q = cfg.tier == crate::report::Tier::Quick;
    vec![
        (Sect::Pairs, u * u * if q { 4 } else { 24 * 2 }),
        (Sect::Bins, 4 * u * u * if q { 1 } else { 8 }),
        (Sect::MaSlot, if q { 200 } else { 8000 }),
        (Sect::MaView, 2 * u * if q { 3 } else { 40 }),
        (Sect::Leaves, if q { 600 } else { 40000 }),
        (Sect::Triples, if q { 1500 } else { 100000 }),
    ]
}

fn dispatch<T: Scalar>(cfg: &Cfg, sect: Sect, j: u64, rng: &mut Rng, out: &mut TrialOut) {
    let q = cfg.tier == crate::report::Tier::Quick;
    let len = if T::EXACT { 70 } else if q { 200 } else { 400 };
    let u = all_unary(3).len() as u64;
    match sect {
        Sect::Pairs => {
            let bi = (j % u) as usize;
            let ai = ((j / u) % u) as usize;
            let r = (j / (u * u)) as usize;
            let (nb, na) = if q {
                (NS_QUICK[r % 4], NS_QUICK[(r + 1) % 4])
            } else {
                (1 + r % 24, rng.usize(1, 24))
            };
            let b = catalogue::bump_n(all_unary(nb)[bi], nb);
            let a = catalogue::bump_n(all_unary(na)[ai], na);
            let class = CLASSES[(r + bi + ai) % CLASSES.len()];
            let inner = seasoned(Spec::leaf(a), class, na, rng);
            unary_pair::<T>(b, &inner, class, len, rng, out);
        }
        Sect::Bins => {
            let k = BINS[(j % 4) as usize];
            let i1 = ((j / 4) % u) as usize;
            let i2 = ((j / (4 * u)) % u) as usize;
            let n1 = rng.usize(1, 9);
            let n2 = rng.usize(1, 9);
            let a1 = catalogue::bump_n(all_unary(n1)[i1], n1);
            let a2 = catalogue::bump_n(all_unary(n2)[i2], n2);
            let class = *rng.pick(&CLASSES);
            binary_pair::<T>(k, &Spec::leaf(a1), &Spec::leaf(a2), class, len, rng, out);
        }
        Sect::MaSlot => {
            let mk = if j % 2 == 0 { MaK::Pfe } else { MaK::Eft };
            let n = rng.usize(catalogue::min_n_ma(mk), 12);
            let mn = rng.usize(1, 8);
            let ms = [
                Spec::leaf(Kind::Ema(mn)),
                Spec::leaf(Kind::Sma(mn)),
                Spec::leaf(Kind::Alma(mn)),
                Spec::leaf(Kind::SuperSmoother(mn)),
                Spec::leaf(Kind::LagFilter(0.5)),
                Spec::un(Kind::Ema(2), Spec::leaf(Kind::Sma(mn))),
                Spec::Echo,
            ];
            let m = ms[((j / 2) % ms.len() as u64) as usize].clone();
            // (streams whose efficiency repeats included)
            let class = if rng.chance(1, 3) { *rng.pick(&[Class::Const, Class::RampUp, Class::Alternating, Class::Step]) } else { *rng.pick(&CLASSES) };
            ma_slot::<T>(mk, n, &m, class, len, rng, out);
        }
        Sect::MaView => {
            let mk = if j % 2 == 0 { MaK::Pfe } else { MaK::Eft };
            let ai = ((j / 2) % u) as usize;
            let na = rng.usize(1, 9);
            let a = catalogue::bump_n(all_unary(na)[ai], na);
            let n = rng.usize(catalogue::min_n_ma(mk), 10);
            let class = *rng.pick(&CLASSES);
            ma_view_slot::<T>(mk, n, &Spec::leaf(a), class, len, rng, out);
        }
        Sect::Leaves => leaf_delivery::<T>(rng, len.min(120), out),
        Sect::Triples => {
            let c = catalogue::random_unary(rng, 1, 12);
            let b = catalogue::random_unary(rng, 1, 12);
            let a = catalogue::random_unary(rng, 1, 12);
            let class = *rng.pick(&CLASSES);
            let inner = seasoned(Spec::un(b, Spec::leaf(a)), class, 12, rng);
            unary_pair::<T>(c, &inner, class, len, rng, out);
        }
    }
}

impl Monitor for C01 {
    fn id(&self) -> &'static str {
        "C01"
    }
    fn plan(&self, cfg: &Cfg) -> u64 {
        sections(cfg).iter().map(|s| s.1).sum()
    }
    fn trial(&self, cfg: &Cfg, idx: u64, out: &mut TrialOut) {
        let mut j = idx;
        let mut sect = Sect::Pairs;
        for (s, n) in sections(cfg) {
            if j < n {
                sect = s;
                break;
            }
            j -= n;
        }
        let mut rng = Rng::for_trial(cfg.seed, "C01", idx);
        match idx % 8 {
            6 => dispatch::<f32>(cfg, sect, j, &mut rng, out),
            7 => dispatch::<Xq>(cfg, sect, j, &mut rng, out),
            _ => dispatch::<f64>(cfg, sect, j, &mut rng, out),
        }
    }
    fn required_cells(&self, _cfg: &Cfg) -> Vec<String> {
        let mut v: Vec<String> = vec![];
        let mut names: Vec<&str> = all_unary(3).iter().map(|k| k.name()).collect();
        names.sort();
        names.dedup();
        for n in names {
            v.push(format!("wrap/{}", n));
        }
        for k in BINS {
            v.push(format!("combine/{:?}", k));
        }
        v.push("ma-slot/Pfe".into());
        v.push("ma-slot/Eft".into());
        v.push("wrap/PolarizedFractalEfficiency".into());
        v.push("wrap/EhlersFisherTransform".into());
        v.push("leaf-delivery/probe".into());
        v.push("leaf-delivery/script".into());
        v
    }
    fn rule(&self) -> String {
        "trial = one tree of real views (every unary wrapper over every unary inner view at several window lengths; every combinator over every pair; PFE/EFT in view and MA slot; random triples; in both of these one inner view in four has already been given values when the wrapper is constructed over it and one in sixteen is a Constant leaf; random trees of depth <=3 with Probe leaves) driven by one seeded input stream; at every step the chain's last() is compared (to_bits) with the stand-alone outer view fed the stand-alone inner view's outputs and with the outer view over a Script replaying those outputs; distinct = distinct (tree, input hash); non-trivial = at least one step compared".into()
    }
    fn assumptions(&self) -> Vec<String> {
        vec![
            "a trial is cut at the first non-finite output of the inner view (out of domain)".into(),
            "release profile; scalar f64 (6/8 of trials), f32 (1/8), exact rational (1/8)".into(),
        ]
    }
    fn design_ref(&self) -> &'static str {
        "DESIGN.md 3/C01"
    }
}
