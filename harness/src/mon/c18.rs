//! C18 — bounded memory: the heap owned by a view does not grow with the stream length.
//!
//! Resource meter: the harness' counting global allocator (per-thread live bytes).  Restatement of
//! "a bound independent of the length": live bytes after 4L and after 16L updates must not exceed
//! live bytes after L updates (L >= 4096 and >= 8 windows: every container has reached its final
//! capacity, and L..16L spans four capacity doublings of any push-only buffer).

use super::{hash_str, mix};
use crate::alloc;
use crate::catalogue::{self, all_unary, BINS};
use crate::dynview::{build_plain, BinK, Kind, MaK, Spec};
use crate::gen::Rng;
use crate::report::{Cfg, Monitor, Tier, TrialOut};
use sliding_features::View;

pub struct C18;

fn ns(cfg: &Cfg) -> Vec<usize> {
    match cfg.tier {
        Tier::Quick => vec![1, 2, 3, 5, 16, 64],
        Tier::Thorough => {
            let mut v: Vec<usize> = (1..=64).collect();
            v.extend([100, 1000]);
            v
        }
    }
}

/// on-the-fly input (no allocation): positive, bounded.  Five modes, chosen from the seed: a
/// state that grows only on particular inputs (ties, flat windows, zeros of an inner view, a
/// value sitting on the mean) must be reached too, not just generic noise.
#[inline]
fn input(state: &mut u64, walk: &mut f64, mode: u64, t: usize) -> f64 {
    *state = state.wrapping_mul(6364136223846793005).wrapping_add(1442695040888963407);
    let r = (*state >> 40) & 0xFFFF;
    match mode {
        7 => {
            // random walk at a high level: records (all-time highs after a dip, deepest drawdowns,
            // largest moves) keep occurring, ever more rarely
            *walk += (r as f64 - 32767.5) / 32768.0;
            1.0e6 + *walk
        }
        8 => 1.0 + t as f64 / 64.0 + (r % 1024) as f64 / 64.0, // noisy up-trend: new highs after dips at a steady rate
        0 => 1.0 + r as f64 / 256.0,           // noise
        1 => 42.5,                              // constant: every window flat
        2 => 1.0 + (r % 3) as f64,              // three levels: ties everywhere
        3 => {
            // long flat stretches separated by short noisy ones
            if (t / 257) % 2 == 0 {
                7.0
            } else {
                1.0 + r as f64 / 256.0
            }
        }
        4 => 1.0 + ((t % 16) as f64),           // strictly periodic saw-tooth (period 16)
        5 => 1.0 + t as f64 / 64.0,             // ever rising: a new all-time (and window) maximum on every step
        _ => 1.0e7 - t as f64 / 64.0,           // ever falling (stays positive for the run lengths used)
    }
}

fn measure(spec: &Spec, l: usize, seed: u64, out: &mut TrialOut, cell: &str) {
    let mode = seed % 9;
    let mut walk = 0.0f64;
    out.key(mix(hash_str(&spec.show()), mix(l as u64, mode)));
    out.count(&format!("input_mode_{}", mode), 1);
    let mut st = seed | 1;
    alloc::start();
    let built = crate::report::guarded(|| build_plain::<f64>(spec));
    let Ok(mut v) = built else {
        alloc::stop();
        out.count("constructor_rejections", 1);
        return;
    };
    let mut fed = 0usize;
    let mut bytes = [0i64; 3];
    let mut calls = [0u64; 3];
    for (slot, target) in [l, 4 * l, 16 * l].iter().enumerate() {
        while fed < *target {
            v.update(input(&mut st, &mut walk, mode, fed));
            fed += 1;
            if fed % 64 == 0 {
                let _ = v.last();
            }
        }
        let (b, c) = alloc::read();
        bytes[slot] = b;
        calls[slot] = c;
    }
    alloc::stop();
    let last = v.last();
    drop(v);
    out.cell(cell, 2);
    let per_update = (calls[2] - calls[1]) as f64 / (12 * l) as f64;
    out.maxi("max_live_bytes_after_L", bytes[0] as f64);
    out.maxi("max_steady_state_allocations_per_update", per_update);
    out.count("updates_fed", fed as u64);
    if bytes[1] > bytes[0] || bytes[2] > bytes[0] {
        out.violation(
            &spec.top(),
            "live-bytes-grow-with-length",
            "any",
            format!(
                "{} at f64: live heap bytes owned by the view: {} after L={} updates, {} after 4L, {} after 16L (last() = {:?}); input mode {} (0 noise, 1 constant, 2 three levels, 3 flat stretches, 4 saw-tooth, 5 rising ramp, 6 falling ramp, 7 random walk at 1e6, 8 noisy up-trend), seed {}",
                spec.show(),
                bytes[0],
                l,
                bytes[1],
                bytes[2],
                last,
                mode,
                seed
            ),
        );
    }
    if out.trial % 37 == 0 {
        out.sample(format!(
            "{}: live bytes {} / {} / {} after L={} / 4L / 16L updates, {:.3} allocations per update in steady state",
            spec.show(),
            bytes[0],
            bytes[1],
            bytes[2],
            l,
            per_update
        ));
    }
}

fn plan_sizes(cfg: &Cfg) -> (u64, u64, u64) {
    let nn = ns(cfg).len() as u64;
    let u = all_unary(3).len() as u64;
    (nn * u * 3, nn * 8 * 3, cfg.tier.pick(600, 4000))
}

impl Monitor for C18 {
    fn id(&self) -> &'static str {
        "C18"
    }
    fn plan(&self, cfg: &Cfg) -> u64 {
        let (a, b, c) = plan_sizes(cfg);
        a + b + c + all_unary(3).len() as u64
    }
    fn trial(&self, cfg: &Cfg, idx: u64, out: &mut TrialOut) {
        let (a, b, _c) = plan_sizes(cfg);
        let nlist = ns(cfg);
        let nn = nlist.len() as u64;
        let mut rng = Rng::for_trial(cfg.seed, "C18", idx);
        let base_l = cfg.tier.pick(4096usize, 16384);
        if idx >= a + b + _c {
            // every kind once at a window of 2 or 3 with L = 2^22: live bytes after 4.2, 16.8 and 67.1
            // million updates (a counter that triggers something every 2^24 updates, or a buffer that
            // gains one element per few million updates, shows only there)
            let j = idx - a - b - _c;
            let n = 2 + (j % 2) as usize;
            let k = catalogue::bump_n(all_unary(n)[j as usize % all_unary(3).len()], n);
            out.count("runs_of_67_million_updates", 1);
            measure(&Spec::leaf(k), 1 << 22, rng.next(), out, &format!("view/{}", k.name()));
            return;
        }
        if idx < a {
            let n = nlist[(idx % nn) as usize];
            let k = catalogue::bump_n(all_unary(n)[((idx / nn) % all_unary(3).len() as u64) as usize], n);
            let n_eff = k.n().unwrap_or(1);
            let l = base_l.max(8 * (n_eff + 12));
            // O(N^2)-per-update views at large N get the minimum length
            let l = if matches!(k, Kind::Net(_)) && n_eff > 64 { 8 * (n_eff + 12) } else { l };
            // thorough: every 7th single view gets the long run (16L = 4e6)
            let cheap = (n_eff <= 16 && !matches!(k, Kind::Net(_))) || n_eff <= 4;
            // long runs (16L = 4e6): every 7th single view in thorough; in the quick tier the
            // smallest windows of every kind (a leak of a few bytes per thousand updates shows only
            // when a buffer doubles, after a million updates or more)
            let long = (cfg.tier == Tier::Thorough && idx % 7 == 0 && cheap) || (cfg.tier == Tier::Quick && n_eff <= 2 && idx % 3 == 0);
            let l = if long { 250_000 } else { l };
            measure(&Spec::leaf(k), l, rng.next(), out, &format!("view/{}", k.name()));
        } else if idx < a + b {
            let j = idx - a;
            let n = nlist[(j % nn) as usize].max(3);
            let mk = if (j / nn) % 2 == 0 { MaK::Pfe } else { MaK::Eft };
            let ma = catalogue::ma_specs(rng.usize(1, 9))[((j / (2 * nn)) % 4) as usize].clone();
            let _ = j / (8 * nn);
            let spec = Spec::ma(mk, n, Spec::Echo, ma);
            let l = base_l.max(8 * (n + 12));
            measure(&spec, l, rng.next(), out, &format!("view/{}", spec.top()));
        } else {
            // chains
            let j = idx - a - b;
            // a view that never delivers anything (Roc over a zero base holds for ever with nothing
            // to hold): whatever sits above it, or uses it as moving average, must not pile up inputs
            let never = Spec::un(Kind::Roc(3), Spec::Constant(0.0));
            let spec = match j % 6 {
                3 => Spec::un(catalogue::random_unary(&mut rng, 1, 24), never.clone()),
                4 => {
                    let mk = if rng.coin() { MaK::Pfe } else { MaK::Eft };
                    let n = rng.usize(3, 16);
                    if rng.coin() {
                        Spec::ma(mk, n, Spec::Echo, never.clone())
                    } else {
                        Spec::ma(mk, n, never.clone(), Spec::leaf(Kind::Ema(3)))
                    }
                }
                5 => {
                    let k = BINS[((j / 6) % 4) as usize];
                    if rng.coin() {
                        Spec::bin(k, Spec::leaf(catalogue::random_unary(&mut rng, 1, 24)), never.clone())
                    } else {
                        Spec::bin(k, never.clone(), Spec::leaf(catalogue::random_unary(&mut rng, 1, 24)))
                    }
                }
                0 => Spec::un(catalogue::random_unary(&mut rng, 1, 24), Spec::leaf(catalogue::random_unary(&mut rng, 1, 24))),
                1 => {
                    let k = BINS[(j % 4) as usize];
                    let d = if k == BinK::Divide { Kind::Sma(rng.usize(1, 9)) } else { catalogue::random_unary(&mut rng, 1, 24) };
                    Spec::bin(k, Spec::leaf(catalogue::random_unary(&mut rng, 1, 24)), Spec::leaf(d))
                }
                _ => Spec::un(
                    catalogue::random_unary(&mut rng, 1, 12),
                    Spec::un(catalogue::random_unary(&mut rng, 1, 12), Spec::leaf(catalogue::random_unary(&mut rng, 1, 12))),
                ),
            };
            measure(&spec, base_l, rng.next(), out, "chains");
        }
    }
    fn required_cells(&self, _cfg: &Cfg) -> Vec<String> {
        let mut names: Vec<String> = all_unary(3).iter().map(|k| format!("view/{}", k.name())).collect();
        names.sort();
        names.dedup();
        names.push("view/PolarizedFractalEfficiency".into());
        names.push("view/EhlersFisherTransform".into());
        names.push("chains".into());
        names
    }
    fn rule(&self) -> String {
        "trial = one view (every kind x N grid), PFE/EFT with each moving average, or a random 2-3 level chain / combinator (a third of them with a component that never becomes ready: as inner view, as moving average, as one child of a combinator), driven by one of nine input modes (noise, constant, three levels, long flat stretches, saw-tooth, ever-rising ramp, ever-falling ramp, random walk at a high level, noisy up-trend); the harness' counting global allocator meters the bytes the instance owns after L, 4L and 16L updates (L >= 4096 and >= 8 windows; long runs to 16L = 4e6, and every kind once at a window of 2 or 3 with L = 2^22, i.e. to 16L = 6.7e7); violation iff bytes(4L) > bytes(L) or bytes(16L) > bytes(L) (exact integer comparison). distinct = distinct (tree, L); non-trivial = both comparisons made".into()
    }
    fn assumptions(&self) -> Vec<String> {
        vec![
            "f64, release profile; the allocator meter counts bytes requested by the thread driving the view".into(),
            "restatement of 'independent of length': no growth from L to 4L to 16L".into(),
        ]
    }
    fn design_ref(&self) -> &'static str {
        "DESIGN.md 3/C18"
    }
}
