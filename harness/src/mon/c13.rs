//! C13 — rolling statistics equal their batch definition over the whole history.
//!
//! Oracle: exact integer-scaled running sum and sum of squares (inputs are k/64 with |k| < 2^26,
//! sums kept in i128) give mean and population std of all values so far; running peak and the
//! largest (peak - x)/peak; ln(x_t / x_(t-1)).  The real code is run at the exact scalar (equality,
//! streams <= 3000) and at f64 on long streams (1e5 quick / 1e7 thorough) with the same tolerance
//! 1e-11 of scale at every length ("no growth beyond rounding noise").

use super::{hash_str, mix};
use crate::dynview::{build_plain, Kind, Spec};
use crate::gen::Rng;
use crate::report::{guarded, Cfg, Monitor, TrialOut};
use crate::scalar::Scalar;
use crate::xq::{self, Xq};
use num::bigint::BigInt;
use num::rational::BigRational;
use num::Float;
use sliding_features::View;

pub struct C13;

#[derive(Clone, Copy, Debug, PartialEq)]
enum Shape {
    /// random walk reflected into [1, 1000]
    Walk,
    /// new peaks after deeper troughs
    PeaksAndTroughs,
    /// repeated equal peaks
    EqualPeaks,
    Rising,
    Falling,
    /// long flat stretches
    Flats,
    /// values spread over three decades
    ThreeDecades,
    /// a high level with a small spread (990 + up to 1/32, 5/16 or 10 by seed): where a sum of
    /// squares minus the squared mean cancels
    Narrow,
    /// 2^41 + {0, 1, 2, 3}: a level 1e12 times the spread (time stamps, large identifiers); at most
    /// 16 000 values (the exact reference keeps n^2 x sum of squares in an i128)
    HugeLevel,
}
const SHAPES: [Shape; 9] = [Shape::Walk, Shape::PeaksAndTroughs, Shape::EqualPeaks, Shape::Rising, Shape::Falling, Shape::Flats, Shape::ThreeDecades, Shape::Narrow, Shape::HugeLevel];

/// integer stream k_t (value = k_t / 64), positive
struct Stream {
    shape: Shape,
    st: u64,
    k: i64,
    t: u64,
    len: u64,
    /// Narrow: number of distinct levels (k in 64 x 990 + [0, width))
    width: u64,
}
impl Stream {
    fn new(shape: Shape, seed: u64, len: u64) -> Stream {
        Stream { shape, st: seed | 1, k: 64 * 100, t: 0, len, width: [3u64, 21, 641][((seed >> 7) % 3) as usize] }
    }
    fn r(&mut self, n: u64) -> i64 {
        self.st = self.st.wrapping_mul(6364136223846793005).wrapping_add(1442695040888963407);
        ((self.st >> 33) % n) as i64
    }
    fn next(&mut self) -> i64 {
        let hi = 64 * 1000;
        let lo = 64;
        let t = self.t;
        self.t += 1;
        let k = match self.shape {
            Shape::Walk => self.k + self.r(1281) - 640,
            Shape::PeaksAndTroughs => {
                // saw-tooth with growing amplitude: deeper troughs, then higher peaks
                let phase = t % 200;
                let cyc = (t / 200) as i64 % 40;
                if phase < 100 {
                    6400 + (cyc + 1) * 40 * phase as i64 / 4 + self.r(64)
                } else {
                    6400 + (cyc + 1) * 40 * (200 - phase as i64) / 4 - (cyc + 1) * 60 + self.r(64)
                }
            }
            Shape::EqualPeaks => {
                if t % 50 == 0 {
                    64 * 500
                } else {
                    64 * 100 + self.r(64 * 300)
                }
            }
            Shape::Rising => lo + ((hi - lo) as u128 * t as u128 / self.len.max(1) as u128) as i64,
            Shape::Falling => hi - ((hi - lo) as u128 * t as u128 / self.len.max(1) as u128) as i64,
            Shape::Flats => {
                if (t / 997) % 2 == 0 {
                    self.k
                } else {
                    self.k + self.r(641) - 320
                }
            }
            Shape::ThreeDecades => {
                let e = self.r(3);
                64 * [1i64, 10, 100][e as usize] + self.r(64 * 9 * [1i64, 10, 100][e as usize] as u64)
            }
            Shape::Narrow => {
                let w = self.width;
                64 * 990 + self.r(w)
            }
            Shape::HugeLevel => 0,
        };
        if self.shape == Shape::HugeLevel {
            let k = (1i64 << 47) + 64 * self.r(4);
            self.k = k;
            return k;
        }
        let k = if k < lo {
            lo + (lo - k).min(hi - lo)
        } else if k > hi {
            hi - (k - hi).min(hi - lo)
        } else {
            k
        };
        self.k = k;
        k
    }
}

const NAMES: [&str; 3] = ["WelfordRolling", "Drawdown", "LnReturn"];
fn kind(i: usize) -> Kind {
    match i {
        0 => Kind::WelfordRolling,
        1 => Kind::Drawdown,
        _ => Kind::LnReturn,
    }
}

/// exact state of the batch definitions
struct Batch {
    n: i128,
    s1: i128,
    s2: i128,
    peak: i64,
    max_dd: (i64, i64), // (peak - x, peak) of the largest ratio so far
    prev: i64,
    cur: i64,
}
impl Batch {
    fn new() -> Batch {
        Batch { n: 0, s1: 0, s2: 0, peak: 0, max_dd: (0, 1), prev: 0, cur: 0 }
    }
    fn push(&mut self, k: i64) {
        self.n += 1;
        self.s1 += k as i128;
        self.s2 += (k as i128) * (k as i128);
        if k > self.peak {
            self.peak = k;
        }
        let (num, den) = (self.peak - k, self.peak);
        // num/den > max_dd ?
        if (num as i128) * (self.max_dd.1 as i128) > (self.max_dd.0 as i128) * (den as i128) {
            self.max_dd = (num, den);
        }
        self.prev = self.cur;
        self.cur = k;
    }
    fn mean_f(&self) -> f64 {
        (self.s1 as f64 / self.n as f64) / 64.0
    }
    /// population variance numerator n s2 - s1^2 (exact, i128) over n^2 64^2
    fn var_f(&self) -> f64 {
        let num = self.n * self.s2 - self.s1 * self.s1;
        (num as f64) / (self.n as f64 * self.n as f64) / 4096.0
    }
    fn mean_q(&self) -> BigRational {
        BigRational::new(BigInt::from(self.s1), BigInt::from(self.n * 64))
    }
    fn var_q(&self) -> BigRational {
        BigRational::new(BigInt::from(self.n * self.s2 - self.s1 * self.s1), BigInt::from(self.n * self.n * 4096))
    }
    fn dd_f(&self) -> f64 {
        self.max_dd.0 as f64 / self.max_dd.1 as f64
    }
}

/// the view over Echo; with `warm` values, over an Echo that has already been given them when the view
/// is constructed ("all values delivered so far" are the values delivered to the view)
fn spec_of(vi: usize, warm: &[f64]) -> Spec {
    if warm.is_empty() {
        Spec::leaf(kind(vi))
    } else {
        Spec::un(kind(vi), Spec::Warm(warm.to_vec(), Box::new(Spec::Echo)))
    }
}

fn fail(out: &mut TrialOut, name: &str, clause: &str, scalar: &str, t: u64, got: String, exp: String, shape: Shape, seed: u64) {
    out.violation(
        name,
        clause,
        "any",
        format!(
            "{} at {}: after {} values of stream (shape {:?}, seed {}, values k/64): got {}, batch definition over the whole history gives {}",
            name,
            scalar,
            t + 1,
            shape,
            seed,
            got,
            exp
        ),
    );
}

fn run_f64(vi: usize, shape: Shape, seed: u64, len: u64, warm: &[f64], units: f64, out: &mut TrialOut) {
    let name = NAMES[vi];
    let cell = format!("{}/f64", name);
    let mut v = build_plain::<f64>(&spec_of(vi, warm));
    let mut s = Stream::new(shape, seed, len);
    let mut b = Batch::new();
    let mut worst = 0f64;
    for t in 0..len {
        let k = s.next();
        // (units: an exact power of two, 1 unless the view is scale-free)
        let x = k as f64 / 64.0 * units;
        b.push(k);
        let Ok(got) = guarded(|| {
            v.update(x);
            v.last()
        }) else {
            out.count("trials_ended_by_panic_of_code_under_test(C15)", 1);
            return;
        };
        out.cell(&cell, 1);
        match vi {
            0 => {
                let (m, var) = v.aux().unwrap();
                let (em, ev) = (b.mean_f(), b.var_f());
                // (HugeLevel: rounding noise is relative to the level; 2e-13 of it separates Welford's
                // noise there - measured below 3e-14 over 16 000 values - from a spread of 1e-12 of the level)
                let (scale, tol) = if shape == Shape::HugeLevel { (2199023255552.0, 2e-13) } else { (1000.0, 1e-11) };
                let es = ev.max(0.0).sqrt();
                let g = got.unwrap_or(f64::NAN);
                worst = worst.max((g - es).abs() / scale).max((m - em).abs() / scale);
                // rounding noise of Welford's update on these streams: <= 6e-14 of scale at 1.7e7 values
                if !((m - em).abs() <= tol * scale) {
                    fail(out, name, "mean", "f64", t, format!("mean() = {:e}", m), format!("{:e}", em), shape, seed);
                    return;
                }
                if !((g - es).abs() <= tol * scale) || !((var - ev).abs() <= tol * scale * scale) {
                    fail(out, name, "population-std", "f64", t, format!("last() = {:e}, variance() = {:e}", g, var), format!("std {:e}, variance {:e}", es, ev), shape, seed);
                    return;
                }
            }
            1 => {
                let e = b.dd_f();
                let g = got.unwrap_or(f64::NAN);
                worst = worst.max((g - e).abs());
                if !((g - e).abs() <= 1e-12) {
                    fail(out, name, "max-relative-decline", "f64", t, format!("{:e}", g), format!("{:e} = {}/{}", e, b.max_dd.0, b.max_dd.1), shape, seed);
                    return;
                }
            }
            _ => {
                if t == 0 {
                    if got.is_some() {
                        fail(out, name, "ln-return", "f64", t, format!("{:?}", got), "no value before the second value".into(), shape, seed);
                        return;
                    }
                    continue;
                }
                let e = ((b.cur as f64 / 64.0) / (b.prev as f64 / 64.0)).ln();
                let g = got.unwrap_or(f64::NAN);
                worst = worst.max((g - e).abs());
                if !((g - e).abs() <= 1e-14 * (1.0 + e.abs())) {
                    fail(out, name, "ln-return", "f64", t, format!("{:e}", g), format!("ln({}/{}) = {:e}", b.cur, b.prev, e), shape, seed);
                    return;
                }
            }
        }
    }
    out.maxi(&format!("max_deviation_over_scale/{}", name), worst);
    out.maxi("longest_stream", len as f64);
}

fn run_exact(vi: usize, shape: Shape, seed: u64, len: u64, warm: &[f64], out: &mut TrialOut) {
    let name = NAMES[vi];
    let cell = format!("{}/exact", name);
    let mut v = build_plain::<Xq>(&spec_of(vi, warm));
    let mut s = Stream::new(shape, seed, len);
    let mut b = Batch::new();
    for t in 0..len {
        let k = s.next();
        b.push(k);
        v.update(Xq::frac(k, 64));
        let got = v.last();
        out.cell(&cell, 1);
        match vi {
            0 => {
                let (m, var) = v.aux().unwrap();
                let (em, ev) = (Xq::from_ratio(b.mean_q()), Xq::from_ratio(b.var_q()));
                let es = Xq::from_val(xq::sqrt_ratio(&b.var_q()));
                if !m.same(em) {
                    fail(out, name, "mean", "Xq", t, m.show(), em.show(), shape, seed);
                    return;
                }
                if !var.same(ev) || !got.map(|g| g.same(es)).unwrap_or(false) {
                    fail(out, name, "population-std", "Xq", t, format!("last() = {:?}, variance() = {}", got, var.show()), format!("std {}, variance {}", es.show(), ev.show()), shape, seed);
                    return;
                }
            }
            1 => {
                let e = Xq::frac(b.max_dd.0, b.max_dd.1);
                if !got.map(|g| g.same(e)).unwrap_or(false) {
                    fail(out, name, "max-relative-decline", "Xq", t, format!("{:?}", got), e.show(), shape, seed);
                    return;
                }
            }
            _ => {
                if t == 0 {
                    if got.is_some() {
                        fail(out, name, "ln-return", "Xq", t, format!("{:?}", got), "no value".into(), shape, seed);
                        return;
                    }
                    continue;
                }
                let e = (Xq::frac(b.cur, 64) / Xq::frac(b.prev, 64)).ln();
                if !got.map(|g| g.same(e)).unwrap_or(false) {
                    fail(out, name, "ln-return", "Xq", t, format!("{:?}", got), e.show(), shape, seed);
                    return;
                }
            }
        }
    }
}

impl Monitor for C13 {
    fn id(&self) -> &'static str {
        "C13"
    }
    fn plan(&self, cfg: &Cfg) -> u64 {
        (3 * SHAPES.len()) as u64 * cfg.tier.pick(4, 96) + 2
    }
    fn trial(&self, cfg: &Cfg, idx: u64, out: &mut TrialOut) {
        let mut rng = Rng::for_trial(cfg.seed, "C13", idx);
        let main = (3 * SHAPES.len()) as u64 * cfg.tier.pick(4, 96);
        if idx >= main {
            // "millions of values": two streams beyond 2^24 values (where a count kept in f32 stalls)
            let vi = if idx == main { 0 } else { 1 };
            let shape = if idx == main { Shape::Walk } else { Shape::PeaksAndTroughs };
            let seed = rng.next();
            out.key(mix(hash_str(&format!("verylong{}", vi)), seed));
            run_f64(vi, shape, seed, (1u64 << 24) + (1u64 << 18), &[], 1.0, out);
            return;
        }
        let vi = (idx % 3) as usize;
        let shape = SHAPES[((idx / 3) % SHAPES.len() as u64) as usize];
        let rep = idx / (3 * SHAPES.len() as u64);
        let seed = rng.next();
        out.key(mix(hash_str(&format!("{}{:?}{}", NAMES[vi], shape, rep)), seed));
        // lengths L, 4L, 16L share one tolerance
        let l = cfg.tier.pick(20_000u64, 600_000);
        // (HugeLevel: short streams only, see the shape)
        let l = if shape == Shape::HugeLevel { 1000 } else { l };
        // one trial in three: the view is constructed over an inner view that has a history already
        // (1..4 values, above, inside or below the stream's range)
        let warm: Vec<f64> = if rng.chance(1, 3) && shape != Shape::HugeLevel {
            let level = *rng.pick(&[2000.0, 1500.25, 500.0, 0.5]);
            (0..rng.usize(1, 4)).map(|i| level + i as f64).collect()
        } else {
            vec![]
        };
        if !warm.is_empty() {
            out.count("trials_with_a_view_constructed_over_an_inner_view_that_already_has_a_history", 1);
        }
        // Drawdown and LnReturn are ratios: one f64 trial in three quotes the stream (and the inner
        // view's earlier history) in units of 2^-70, 2^-300 or 2^200 - exact scalings, so the expected
        // outputs are the same numbers; an absolute threshold on a peak or a price is not scale-free
        let units = if vi >= 1 && rep % 4 >= 1 && rng.chance(1, 3) { 2f64.powi(*rng.pick(&[-70, -300, -70, 200])) } else { 1.0 };
        if units != 1.0 {
            out.count("ratio_view_trials_in_other_units(2^-300, 2^-70, 2^200)", 1);
        }
        let warm: Vec<f64> = warm.iter().map(|w| w * units).collect();
        match rep % 4 {
            0 => run_exact(vi, shape, seed, cfg.tier.pick(1_200, 3_000), &warm, out),
            1 => run_f64(vi, shape, seed, l, &warm, units, out),
            2 => run_f64(vi, shape, seed, 4 * l, &warm, units, out),
            _ => run_f64(vi, shape, seed, 16 * l, &warm, units, out),
        }
        if idx % 5 == 0 {
            out.sample(format!("{} on stream shape {:?} seed {} (values k/64 in [1,1000]), repetition {} (0: exact scalar; 1..3: f64 at L, 4L, 16L with L = {})", NAMES[vi], shape, seed, rep % 4, l));
        }
    }
    fn required_cells(&self, _cfg: &Cfg) -> Vec<String> {
        let mut v = vec![];
        for n in NAMES {
            v.push(format!("{}/exact", n));
            v.push(format!("{}/f64", n));
        }
        v
    }
    fn rule(&self) -> String {
        "trial = (WelfordRolling | Drawdown | LnReturn; stream shape: reflected walk, peaks after deeper troughs, repeated equal peaks, monotone runs, long flat stretches, three decades, a high level with a small spread (990 + up to 1/32, 5/16 or 10), 2^41 + {0..3} on at most 16 000 values; seed; length). After every update: mean()/variance()/last() vs exact mean and population variance/std of all values so far (integer-scaled sums in i128), Drawdown vs the largest (peak_j - x_j)/peak_j over all j with the running peak, LnReturn vs ln(x_t/x_(t-1)). A third of the trials construct the view over an Echo that has already been given 1..4 values (the definitions are over the values delivered to the view); a third of the f64 trials of Drawdown and LnReturn quote the stream in units of 2^-300, 2^-70 or 2^200. Equality at the exact scalar (1.2e3 / 3e3 values); at f64 tolerance 1e-11 of scale (observed on the unchanged tree: 6e-14; Drawdown 1e-12, LnReturn 1e-14) at every step of streams of L, 4L and 16L values (L = 2e4 quick, 6e5 thorough: 16L = 3.2e5 / ~1e7), the same tolerance at every length. distinct = distinct (view, shape, seed, length)".into()
    }
    fn assumptions(&self) -> Vec<String> {
        vec!["positive inputs k/64 in [1, 1000]".into(), "'any length' restated as: the same tolerance holds at L, 4L, 16L".into()]
    }
    fn design_ref(&self) -> &'static str {
        "DESIGN.md 3/C13"
    }
}
