//! C03 — finite memory: windowed views forget everything older than the window.
//!
//! Relation between two executions: two instances of the same view are fed different prefixes
//! (lengths 0..20N, magnitudes up to 2^40 times the suffix's) and then the same suffix.  From the
//! K-th suffix value on the outputs must be equal: exactly at the exact scalar, and in f64 within
//! the rounding envelope of the largest magnitude either instance has seen.

use super::{hash_str, mix, show_inputs};
use crate::dynview::{build_plain, Kind, MaK, Spec};
use crate::gen::{self, Class, Rng};
use crate::oracle::window as ow;
use crate::report::{guarded, Cfg, Monitor, Tier, TrialOut};
use crate::scalar::{show_opt, Scalar};
use crate::xq::Xq;
use sliding_features::View;

pub struct C03;

#[derive(Clone, Debug)]
struct Case {
    name: &'static str,
    spec: Spec,
    k: usize,
    n: usize,
    /// value-like output (scale with the input) or normalised
    value_like: bool,
    sum_gain: f64,
}

const NAMES: [&str; 17] = [
    "Sma", "Cumulative", "Min", "Max", "Roc", "WelfordOnline", "Vst", "Vsct", "HLNormalizer", "BinaryEntropy", "CenterOfGravity",
    "CorrelationTrendIndicator", "NoiseEliminationTechnology", "Rsi", "MyRSI", "Alma", "PolarizedFractalEfficiency",
];

fn case(i: usize, n: usize, rng: &mut Rng) -> Case {
    let n1 = n.max(1);
    let (spec, k, value_like, gain) = match i {
        0 => (Spec::leaf(Kind::Sma(n1)), n1, true, 1.0),
        1 => (Spec::leaf(Kind::Cumulative(n1)), n1, true, n1 as f64),
        2 => (Spec::leaf(Kind::Min(n1)), n1, true, 1.0),
        3 => (Spec::leaf(Kind::Max(n1)), n1, true, 1.0),
        4 => (Spec::leaf(Kind::Roc(n1)), n1 + 1, false, 1.0),
        5 => (Spec::leaf(Kind::Welford(n1)), n1, true, 1.0),
        6 => (Spec::leaf(Kind::Vst(n1)), n1, false, 1.0),
        7 => (Spec::leaf(Kind::Vsct(n1)), n1, false, 1.0),
        8 => (Spec::leaf(Kind::HL(n1)), n1, false, 1.0),
        9 => (Spec::leaf(Kind::BinEnt(n1)), n1, false, 1.0),
        10 => (Spec::leaf(Kind::Cog(n1)), n1, false, 1.0),
        11 => (Spec::leaf(Kind::Cti(n1.max(2))), n1.max(2), false, 1.0),
        12 => (Spec::leaf(Kind::Net(n1.max(2))), n1.max(2), false, 1.0),
        13 => (Spec::leaf(Kind::Rsi(n1)), n1 + 1, false, 1.0),
        14 => (Spec::leaf(Kind::MyRsi(n1)), n1 + 1, false, 1.0),
        15 => (Spec::leaf(Kind::Alma(n1)), 2 * n1, true, 1.0),
        _ => {
            let nn = n1.max(3);
            let m = rng.usize(1, 6);
            let ma = if rng.chance(1, 4) { Spec::Echo } else { Spec::leaf(Kind::Sma(m)) };
            let mm = if ma == Spec::Echo { 1 } else { m };
            (Spec::ma(MaK::Pfe, nn, Spec::Echo, ma), nn + mm - 1, false, 1.0)
        }
    };
    let n_eff = super::c17::spec_n(&spec).max(n1);
    Case { name: NAMES[i.min(16)], spec, k, n: n_eff, value_like, sum_gain: gain }
}

/// six prefix styles; `huge` scales the magnitudes (2^40 at the exact scalar)
fn prefix(style: u64, n: usize, huge: f64, rng: &mut Rng) -> Vec<f64> {
    let len = match rng.below(8) {
        0 | 1 => rng.usize(1, n + 1),
        2 | 3 => rng.usize(n, 3 * n + 2),
        // a history of thousands of values: periodic internal bookkeeping must not leak it
        4 => rng.usize(1500, 4200),
        _ => rng.usize(3 * n, 20 * n + 3),
    };
    match style {
        0 => vec![],
        1 => gen::gen(Class::Uniform, n, len, rng),
        2 => gen::gen(Class::Uniform, n, len, rng).iter().map(|x| x * huge).collect(),
        3 => vec![*rng.pick(&[0.0, 1.0, -7.5, 1024.0]); len],
        4 => gen::gen(Class::Blocks, n, len, rng),
        _ => {
            // one enormous spike deep in the past, then ordinary values
            let mut v = gen::gen(Class::Walk, n, len, rng);
            let at = rng.usize(0, len - 1);
            v[at] = huge * if rng.coin() { 1.0 } else { -1.0 };
            v
        }
    }
}

fn run<T: Scalar>(c: &Case, p1: &[f64], p2: &[f64], suffix: &[f64], out: &mut TrialOut) {
    let cell = format!("{}/{}", c.name, if T::EXACT { "exact" } else { "f64" });
    let mut a = build_plain::<T>(&c.spec);
    let mut b = build_plain::<T>(&c.spec);
    let feed = |v: &mut crate::dynview::Dyn<T>, xs: &[f64]| -> bool {
        guarded(|| {
            for x in xs {
                v.update(T::of(*x));
            }
        })
        .is_ok()
    };
    if !feed(&mut a, p1) || !feed(&mut b, p2) {
        out.count("trials_ended_by_panic_of_code_under_test(C15)", 1);
        return;
    }
    let big = p1.iter().chain(p2.iter()).chain(suffix.iter()).fold(0f64, |m, x| m.max(x.abs()));
    let sq: Vec<Xq> = suffix.iter().map(|x| Xq::of(*x)).collect();
    let kind = match &c.spec {
        Spec::Un(k, _) => Some(*k),
        _ => None,
    };
    for (i, x) in suffix.iter().enumerate() {
        let r = guarded(|| {
            a.update(T::of(*x));
            b.update(T::of(*x));
            (a.last(), b.last())
        });
        let Ok((ra, rb)) = r else {
            out.count("trials_ended_by_panic_of_code_under_test(C15)", 1);
            return;
        };
        if i + 1 < c.k {
            continue;
        }
        // documented hold exceptions, decided by the exact oracle on the suffix
        match kind {
            Some(Kind::MyRsi(n)) => {
                let (g, l) = ow::gains_losses(&sq, i, n);
                if (g + l) == Xq::of(0.0) {
                    out.count("steps_skipped_documented_hold(MyRSI flat window)", 1);
                    continue;
                }
            }
            Some(Kind::Roc(n)) => {
                if i >= n && suffix[i - n] == 0.0 {
                    out.count("steps_skipped_documented_hold(Roc zero base)", 1);
                    continue;
                }
            }
            _ => {}
        }
        let ok = match (ra, rb) {
            (None, None) => true,
            (Some(x), Some(y)) => {
                if T::EXACT {
                    x.same(y)
                } else {
                    let (x, y) = (x.f(), y.f());
                    let updates = (p1.len().max(p2.len()) + i + 1) as f64;
                    let w = &suffix[(i + 1).saturating_sub(c.n)..=i];
                    let lo = w.iter().cloned().fold(f64::INFINITY, f64::min);
                    let hi = w.iter().cloned().fold(f64::NEG_INFINITY, f64::max);
                    if c.value_like {
                        let tol = if matches!(kind, Some(Kind::Welford(_))) {
                            // std: square-root of the m2 envelope
                            (64.0 * f64::EPSILON * updates * (c.n as f64 + 1.0) * 4.0 * big * big).sqrt()
                        } else {
                            64.0 * f64::EPSILON * updates * big * c.sum_gain
                        };
                        (x - y).abs() <= tol
                    } else {
                        // normalised outputs: judged in f64 only where the window is well conditioned
                        if !(hi - lo > big / 1024.0) {
                            out.count("f64_steps_skipped_ill_conditioned_window", 1);
                            continue;
                        }
                        (x - y).abs() <= 1e-6 * (1.0 + x.abs().max(y.abs()))
                    }
                }
            }
            _ => false,
        };
        out.cell(&cell, 1);
        if !ok {
            out.violation(
                c.name,
                "finite-memory",
                "any",
                format!(
                    "{} at {}: after different prefixes (lengths {} and {}) and {} common values (K = {}), outputs differ: {} vs {}\nprefix A tail: {:?}\nprefix B tail: {:?}\ncommon suffix so far: {}",
                    c.spec.show(),
                    T::NAME,
                    p1.len(),
                    p2.len(),
                    i + 1,
                    c.k,
                    show_opt(ra),
                    show_opt(rb),
                    &p1[p1.len().saturating_sub(8)..],
                    &p2[p2.len().saturating_sub(8)..],
                    show_inputs(suffix, i, 40)
                ),
            );
            return;
        }
    }
}

fn ns(cfg: &Cfg) -> Vec<usize> {
    match cfg.tier {
        Tier::Quick => vec![1, 2, 3, 4, 6, 11, 24],
        Tier::Thorough => (1..=32).chain([100]).collect(),
    }
}

const SUFFIX: [Class; 4] = [Class::Walk, Class::SmallInt, Class::Uniform, Class::Blocks];

impl Monitor for C03 {
    fn id(&self) -> &'static str {
        "C03"
    }
    fn plan(&self, cfg: &Cfg) -> u64 {
        (17 * ns(cfg).len() * 6 * 4) as u64 * cfg.tier.pick(2, 12)
    }
    fn trial(&self, cfg: &Cfg, idx: u64, out: &mut TrialOut) {
        let nl = ns(cfg);
        let mut rng = Rng::for_trial(cfg.seed, "C03", idx);
        let vi = (idx % 17) as usize;
        let n = nl[((idx / 17) % nl.len() as u64) as usize];
        let n = super::jitter_n(cfg, n, 1, 40, &mut rng);
        let style = (idx / (17 * nl.len() as u64)) % 6;
        let sclass = SUFFIX[((idx / (17 * nl.len() as u64 * 6)) % 4) as usize];
        let rep = idx / (17 * nl.len() as u64 * 24);
        let c = case(vi, n, &mut rng);
        // NET at windows above 32 runs at f64 only: N^2 exact operations per update (which the exact
        // scalar never frees) buy nothing where f64 itself computes signs and small integers exactly
        let exact = rep % 2 == 0 && !(c.name == "NoiseEliminationTechnology" && c.n > 32);
        // magnitudes: up to 2^40 x the suffix at the exact scalar; moderate (x16) in f64 for the
        // normalised views, 2^40 for the value-like ones (their envelope scales with it)
        let huge = if exact || c.value_like { 1099511627776.0 } else { 16.0 };
        let p1 = prefix(style, c.n, huge, &mut rng);
        let other = rng.below(6);
        let p2 = prefix(if other == style { (style + 1) % 6 } else { other }, c.n, huge, &mut rng);
        // the exact scalar never frees what a view has computed: the two prefixes together are cut (at
        // the front) to what about 1.5 million exact operations pay for - thousands of values for the
        // O(1) and small-window views, a few windows for NET at N = 100.  Long histories of the
        // expensive views run at f64.
        let (p1, p2) = if exact {
            let nn = c.n.max(1);
            let per_update = match c.name {
                "NoiseEliminationTechnology" => 4 * nn * nn,
                "CorrelationTrendIndicator" | "CenterOfGravity" | "Rsi" | "MyRSI" | "PolarizedFractalEfficiency" => 6 * nn,
                "Min" | "Max" | "HLNormalizer" => nn + 4,
                _ => 8,
            };
            let each = (1_500_000 / per_update / 2).max(3 * nn + 8);
            let cut = |p: Vec<f64>| if p.len() > each { p[p.len() - each..].to_vec() } else { p };
            (cut(p1), cut(p2))
        } else {
            (p1, p2)
        };
        let slen = c.k + rng.usize(1, 3 * c.n + 10);
        let mut suffix = gen::gen(sclass, c.n, slen, &mut rng);
        // an eighth of the f64 trials of the views that only compare, subtract and divide their inputs
        // run in units of 2^-1064 (subnormal values: a base or an extent that "is not normal" is still
        // a value of the window)
        let (p1, p2) = if !exact && matches!(c.name, "Roc" | "HLNormalizer" | "BinaryEntropy" | "Min" | "Max") && rng.chance(1, 8) {
            let s = |v: Vec<f64>| v.into_iter().map(|x| x * 2f64.powi(-532) * 2f64.powi(-532)).collect::<Vec<f64>>();
            suffix = s(suffix);
            out.count("f64_trials_in_subnormal_units", 1);
            (s(p1), s(p2))
        } else {
            (p1, p2)
        };
        out.key(mix(hash_str(&format!("{}{}", c.spec.show(), exact)), mix(gen::hash_f64s(&p1), mix(gen::hash_f64s(&p2), gen::hash_f64s(&suffix)))));
        out.maxi("largest_prefix_to_suffix_magnitude_ratio", {
            let pm = p1.iter().chain(p2.iter()).fold(0f64, |m, x| m.max(x.abs()));
            let sm = suffix.iter().fold(0f64, |m, x| m.max(x.abs())).max(1e-9);
            pm / sm
        });
        out.maxi("longest_prefix", p1.len().max(p2.len()) as f64);
        if p1.is_empty() || p2.is_empty() {
            out.count("trials_with_one_empty_prefix", 1);
        }
        if idx % 257 == 0 {
            out.sample(format!(
                "{} at {}: prefixes of {} and {} values (styles {} / other), suffix class {:?} of {} values, K = {}",
                c.spec.show(),
                if exact { "Xq" } else { "f64" },
                p1.len(),
                p2.len(),
                style,
                sclass,
                suffix.len(),
                c.k
            ));
        }
        if exact {
            run::<Xq>(&c, &p1, &p2, &suffix, out);
            out.maxi(&format!("exact_scalar_arena_entries_alive_at_once/{}", c.name), crate::xq::peak() as f64);
        } else {
            run::<f64>(&c, &p1, &p2, &suffix, out)
        }
    }
    fn required_cells(&self, _cfg: &Cfg) -> Vec<String> {
        let mut v = vec![];
        for n in NAMES {
            v.push(format!("{}/exact", n));
            v.push(format!("{}/f64", n));
        }
        v
    }
    fn rule(&self) -> String {
        "trial = (one of the 17 listed views, N, prefix style pair out of six: empty, noise, noise x 2^40, constant, blocks, one enormous spike; suffix class); two instances fed prefix A + suffix and prefix B + suffix; from the K-th suffix value on (K = N; N+1 for Rsi/MyRSI/Roc; 2N for Alma; N+M-1 for PFE over Sma(M) or Echo) last() of both must be equal: exactly at the exact scalar, within 64 eps x updates x largest magnitude (value-like) or 1e-6 on well-conditioned windows (normalised) at f64; documented hold steps (MyRSI flat window, Roc zero base, decided by the exact oracle) are skipped and counted. distinct = distinct (view, N, scalar, prefixes, suffix)".into()
    }
    fn assumptions(&self) -> Vec<String> {
        vec!["in f64 the residue a 2^40 prefix leaves in a running sum is rounding proportional to the largest magnitude seen (its amplification on flat windows is C16's clause)".into()]
    }
    fn design_ref(&self) -> &'static str {
        "DESIGN.md 3/C03"
    }
}
