//! C06 — trend indicators are true correlation measures of the window.

use super::{hash_str, mix, show_inputs};
use crate::dynview::{build_plain, Kind, Spec};
use crate::gen::{self, Class, Rng};
use crate::oracle::window as ow;
use crate::report::{guarded, Cfg, Monitor, Tier, TrialOut};
use crate::scalar::Scalar;
use crate::xq::Xq;
use num::Float;
use sliding_features::View;

pub struct C06;

const CLASSES: [Class; 12] = [
    Class::Walk,
    Class::SmallInt,
    Class::Uniform,
    Class::RampUp,
    Class::RampDown,
    Class::JumpOldest,
    Class::Spike,
    Class::Const,
    Class::LinearExact,
    Class::Blocks,
    Class::ExtremumCycle,
    Class::OffsetSmallVar,
];
const NAMES: [&str; 3] = ["CorrelationTrendIndicator", "NoiseEliminationTechnology", "CenterOfGravity"];

fn kind(i: u64, n: usize) -> Kind {
    match i {
        0 => Kind::Cti(n),
        1 => Kind::Net(n),
        _ => Kind::Cog(n),
    }
}

/// the statement's value on the current window (None: no claim at this step)
fn reference(k: &Kind, xq: &[Xq], t: usize) -> Option<Xq> {
    match *k {
        Kind::Cti(n) => {
            if t + 1 < n {
                None
            } else {
                Some(ow::pearson_time(ow::win(&xq[..=t], n)))
            }
        }
        Kind::Net(n) => {
            let w = ow::win(&xq[..=t], n);
            if w.len() < 2 {
                None
            } else {
                Some(ow::kendall_time(w))
            }
        }
        Kind::Cog(n) => Some(ow::cog(ow::win(&xq[..=t], n))),
        _ => unreachable!(),
    }
}

fn fail(out: &mut TrialOut, k: &Kind, scalar: &str, clause: &str, t: usize, got: String, exp: String, xs: &[f64], extra: &str) {
    out.violation(
        k.name(),
        clause,
        "any",
        format!(
            "{} at {}: step {} (value #{}): got {}, statement gives {} {}\n{}",
            Spec::leaf(*k).show(),
            scalar,
            t,
            t + 1,
            got,
            exp,
            extra,
            show_inputs(xs, t, k.n().unwrap_or(1) + 4)
        ),
    );
}

fn strictly_monotone(w: &[f64]) -> i32 {
    if w.len() < 2 {
        return 0;
    }
    if w.windows(2).all(|p| p[1] > p[0]) {
        1
    } else if w.windows(2).all(|p| p[1] < p[0]) {
        -1
    } else {
        0
    }
}

fn run_exact(k: Kind, xs: &[f64], out: &mut TrialOut) {
    let n = k.n().unwrap();
    let xq: Vec<Xq> = xs.iter().map(|x| Xq::of(*x)).collect();
    let mut v = build_plain::<Xq>(&Spec::leaf(k));
    let mut vn = build_plain::<Xq>(&Spec::leaf(k));
    let cell = format!("{}/exact", k.name());
    for t in 0..xs.len() {
        v.update(xq[t]);
        vn.update(-xq[t]);
        let got = v.last();
        let Some(e) = reference(&k, &xq, t) else { continue };
        out.cell(&cell, 1);
        let Some(g) = got else {
            fail(out, &k, "Xq", "reports", t, "None".into(), e.show(), xs, "");
            return;
        };
        // CTI involves an irrational square root of differently scaled (algebraically equal up to
        // a rational factor) arguments: 1e-12; the other two are rational: equality
        let ok = if matches!(k, Kind::Cti(_)) { (g - e).abs().f() <= 1e-12 } else { g.same(e) };
        if !ok {
            fail(out, &k, "Xq", "definition", t, g.show(), e.show(), xs, "(exact rational arithmetic)");
            return;
        }
        let w = &xs[(t + 1).saturating_sub(n)..=t];
        let mono = strictly_monotone(w);
        if mono != 0 && t + 1 >= n {
            out.count("strictly_monotone_full_windows", 1);
        }
        if w.windows(2).any(|p| p[0] == p[1]) {
            out.count("windows_with_adjacent_ties", 1);
        }
        // sign flip under negation (CTI, NET)
        if !matches!(k, Kind::Cog(_)) {
            if let Some(gn) = vn.last() {
                out.cell(&format!("{}/negation", k.name()), 1);
                if !(gn + g).abs().f().le(&1e-12) {
                    fail(out, &k, "Xq", "negation", t, gn.show(), (-g).show(), xs, "(output on the negated stream)");
                    return;
                }
            }
        }
    }
}

fn run_f64(k: Kind, xs: &[f64], out: &mut TrialOut) {
    let n = k.n().unwrap();
    let xq: Vec<Xq> = xs.iter().map(|x| Xq::of(*x)).collect();
    let mut v = build_plain::<f64>(&Spec::leaf(k));
    let cell = format!("{}/f64", k.name());
    let eps = f64::EPSILON;
    let mut big = 0f64;
    for t in 0..xs.len() {
        // the exact quantities of one step are not needed after it (the view runs at f64)
        let _step = crate::xq::Scope::new();
        big = big.max(xs[t].abs());
        let Ok(got) = guarded(|| {
            v.update(xs[t]);
            v.last()
        }) else {
            out.count("trials_ended_by_panic_of_code_under_test(C15)", 1);
            return;
        };
        let Some(e) = reference(&k, &xq, t) else { continue };
        let Some(g) = got else {
            out.cell(&cell, 1);
            fail(out, &k, "f64", "reports", t, "None".into(), e.show(), xs, "");
            return;
        };
        let w = ow::win(&xq[..=t], n);
        let nn = w.len() as f64;
        let tol = match k {
            Kind::Cti(_) => {
                // one-pass N sum x^2 - (sum x)^2 has cancellation error ~ eps N^2 M^2
                let css = ow::centred_ss(w).f() * nn;
                let env = 64.0 * eps * nn * nn * big * big;
                if css == 0.0 {
                    // exactly flat window: the statement's 0 is C07/C16's to check in f64
                    out.count("f64_steps_skipped_flat_window", 1);
                    continue;
                }
                if !(css > 1e3 * env) {
                    out.count("f64_steps_skipped_variance_below_cancellation_envelope", 1);
                    continue;
                }
                4.0 * env / css + 64.0 * nn * eps
            }
            Kind::Net(_) => 8.0 * eps,
            Kind::Cog(_) => {
                let den = ow::sum(w).f().abs();
                let sabs: f64 = w.iter().map(|x| x.f().abs()).sum();
                let env = 64.0 * eps * nn * sabs;
                if den == 0.0 {
                    0.0
                } else if !(den > 1e3 * env) {
                    out.count("f64_steps_skipped_denominator_below_rounding_envelope", 1);
                    continue;
                } else {
                    (nn + e.f().abs()) * (4.0 * env / den + 64.0 * nn * eps)
                }
            }
            _ => unreachable!(),
        };
        out.cell(&cell, 1);
        let e = e.f();
        if !((g - e).abs() <= tol) {
            fail(out, &k, "f64", "definition", t, format!("{:e}", g), format!("{:e}", e), xs, &format!("(difference {:e} > tolerance {:e})", (g - e).abs(), tol));
            return;
        }
    }
}

/// "+1 / -1 on a linear window", far from where the stream began: one to three values near zero, then
/// an exactly linear stretch at a level of 2^30 or 2^40 in steps of about 2^-10 (every value and every
/// difference within a window exactly representable).  Correlation does not depend on the level, and
/// on such a window the statement's value is exactly +-1; a reference level that is not the window's
/// own (the first value ever seen, zero) leaves N sxx - sx^2 to cancel.  Tolerance 1e-9.
fn run_far_linear(n: usize, rng: &mut Rng, out: &mut TrialOut) {
    let k = Kind::Cti(n);
    let start = *rng.pick(&[0.0, 1.0, -250.0]);
    let pre = rng.usize(1, 3);
    let level = *rng.pick(&[1073741824.0, -1073741824.0, 1099511627776.0]);
    let step = *rng.pick(&[0.0009765625, -0.0009765625, 0.01171875]);
    let mut xs: Vec<f64> = (0..pre).map(|i| start + i as f64).collect();
    xs.extend((0..3 * n + 20).map(|i| level + step * i as f64));
    out.key(mix(hash_str("far-linear"), gen::hash_f64s(&xs)));
    let mut v = build_plain::<f64>(&Spec::leaf(k));
    let want = if step > 0.0 { 1.0 } else { -1.0 };
    for t in 0..xs.len() {
        let Ok(got) = guarded(|| {
            v.update(xs[t]);
            v.last()
        }) else {
            out.count("trials_ended_by_panic_of_code_under_test(C15)", 1);
            return;
        };
        if t + 1 < pre + n {
            continue;
        }
        out.cell("CorrelationTrendIndicator/linear-window-far-from-the-first-value", 1);
        if !matches!(got, Some(g) if (g - want).abs() <= 1e-9) {
            fail(out, &k, "f64", "linear-window", t, format!("{:?}", got), format!("{:e}", want), &xs, "(exactly linear full window, tolerance 1e-9)");
            return;
        }
    }
}

/// NET depends only on the order of the values: strictly increasing maps leave it bit-identical
fn run_net_order(n: usize, xs: &[f64], out: &mut TrialOut) {
    let k = Kind::Net(n);
    let mut a = build_plain::<f64>(&Spec::leaf(k));
    let mut b = build_plain::<f64>(&Spec::leaf(k));
    let mut c = build_plain::<f64>(&Spec::leaf(k));
    for (t, x) in xs.iter().enumerate() {
        a.update(*x);
        b.update(x * x * x);
        c.update((x / 64.0).exp2());
        let (ra, rb, rc) = (a.last(), b.last(), c.last());
        out.cell("NoiseEliminationTechnology/order-only", 1);
        let same = |p: Option<f64>, q: Option<f64>| p.map(f64::to_bits) == q.map(f64::to_bits);
        if !(same(ra, rb) && same(ra, rc)) {
            fail(out, &k, "f64", "order-only", t, format!("{:?} / {:?}", rb, rc), format!("{:?}", ra), xs, "(NET of x^3 and of 2^(x/64) vs NET of x)");
            return;
        }
    }
}

fn ns(cfg: &Cfg) -> Vec<usize> {
    match cfg.tier {
        Tier::Quick => vec![3, 4, 5, 6, 9, 16, 40],
        Tier::Thorough => (3..=64).collect(),
    }
}

impl Monitor for C06 {
    fn id(&self) -> &'static str {
        "C06"
    }
    fn plan(&self, cfg: &Cfg) -> u64 {
        (3 * ns(cfg).len() * CLASSES.len()) as u64 * cfg.tier.pick(4, 12) + cfg.tier.pick(100, 3000)
    }
    fn trial(&self, cfg: &Cfg, idx: u64, out: &mut TrialOut) {
        let nl = ns(cfg);
        let mut rng = Rng::for_trial(cfg.seed, "C06", idx);
        let main = (3 * nl.len() * CLASSES.len()) as u64 * cfg.tier.pick(4, 12);
        if idx >= main {
            let n = *rng.pick(&nl);
            if (idx - main) % 4 == 3 {
                run_far_linear(n, &mut rng, out);
                return;
            }
            // moderate values so that x^3 and 2^(x/64) stay strictly increasing in f64
            let xs: Vec<f64> = gen::gen(*rng.pick(&[Class::Walk, Class::SmallInt, Class::Uniform, Class::Blocks]), n, 4 * n + 40, &mut rng)
                .iter()
                .map(|x| x.clamp(-64.0, 64.0))
                .collect();
            out.key(mix(hash_str("net-order"), gen::hash_f64s(&xs)));
            run_net_order(n, &xs, out);
            return;
        }
        let n = nl[((idx / 3) % nl.len() as u64) as usize];
        let n = super::jitter_n(cfg, n, 3, 64, &mut rng);
        let k = kind(idx % 3, n);
        let class = CLASSES[((idx / (3 * nl.len() as u64)) % CLASSES.len() as u64) as usize];
        let rep = idx / (3 * nl.len() * CLASSES.len()) as u64;
        let exact = rep % 2 == 0;
        let len = if exact { (4 * n + 30).min(220) } else { (5 * n + 60).max(cfg.tier.pick(250, 1200)) };
        let mut xs = gen::gen(class, n, len, &mut rng);
        if rep % 4 >= 2 {
            // a permutation-like variant: shuffle blocks of the stream (same multiset, other order)
            for i in (1..xs.len()).rev() {
                if rng.chance(1, 3) {
                    let j = rng.usize(i.saturating_sub(n), i);
                    xs.swap(i, j);
                }
            }
        }
        // a quarter of the trials give every exact zero of the stream a random sign (-0.0 == 0.0 is a
        // tie and a zero like any other; a test of the sign bit is not)
        if rng.chance(1, 4) {
            for x in xs.iter_mut() {
                if *x == 0.0 && rng.coin() {
                    *x = -0.0;
                }
            }
            out.count("trials_with_signed_zeros", 1);
        }
        // one f64 trial in six is quoted in units of 2^-70 or 2^-300: all three views are exactly
        // scale-free, an absolute threshold (a denominator "below epsilon") is not
        let mut xs = xs;
        if !exact && rng.chance(1, 6) {
            let s = 2f64.powi(*rng.pick(&[-70, -300]));
            for x in xs.iter_mut() {
                *x *= s;
            }
            out.count("f64_trials_in_tiny_units", 1);
        }
        out.key(mix(hash_str(&format!("{:?}{}", k, exact)), gen::hash_f64s(&xs)));
        if idx % 127 == 0 {
            out.sample(format!("{} at {} on {:?}: {} values, first {:?}", Spec::leaf(k).show(), if exact { "Xq" } else { "f64" }, class, xs.len(), &xs[..xs.len().min(10)]));
        }
        if exact {
            run_exact(k, &xs, out)
        } else {
            run_f64(k, &xs, out)
        }
    }
    fn required_cells(&self, _cfg: &Cfg) -> Vec<String> {
        let mut v = vec![];
        for n in NAMES {
            v.push(format!("{}/exact", n));
            v.push(format!("{}/f64", n));
        }
        v.push("CorrelationTrendIndicator/negation".into());
        v.push("NoiseEliminationTechnology/negation".into());
        v.push("NoiseEliminationTechnology/order-only".into());
        v
    }
    fn rule(&self) -> String {
        "trial = (CTI, NET or CoG; N in 3..64; input class incl. ties, monotone runs, jumps on the oldest segment, linear windows at a large offset, partially shuffled streams; scalar); after every update last() is compared with Pearson r of (window values, index) on the full window, Kendall tau-a over all pairs of the current window (ties 0), and (n+1)/2 - sum k x / sum x, evaluated from the recorded history in exact arithmetic (equality; 1e-12 for CTI's irrational root), the negation relation, and in f64 within a conditioning-aware envelope; NET additionally bit-identical under x -> x^3 and x -> 2^(x/64); CTI additionally +-1 (1e-9) on exactly linear windows at a level of 2^30 / 2^40 in a stream that began near zero. distinct = distinct (view, N, scalar, input hash)".into()
    }
    fn assumptions(&self) -> Vec<String> {
        vec!["f64 steps of CTI whose exact centred sum of squares is below 1000 x the one-pass cancellation envelope are skipped here (C07/C16 own them) and counted".into()]
    }
    fn design_ref(&self) -> &'static str {
        "DESIGN.md 3/C06"
    }
}
