//! C12 — normalised indicators are invariant to units, offset and sign.
//!
//! Relations between two executions: x vs a x + b, x vs a x, x vs -x, per the statement's three
//! lists.  Decided (i) exactly at the exact scalar for arbitrary rational a > 0 and b (1e-12 where
//! an irrational root of differently scaled arguments is involved), (ii) bit-exactly in f64 for
//! a = 2^k (and dyadic offsets for the views that only form differences of inputs), (iii) within
//! a tolerance in f64 for general a, b on well-conditioned windows.

use super::{hash_str, mix, show_inputs};
use crate::dynview::{build_plain, Kind, MaK, Spec};
use crate::gen::{self, Class, Rng};
use crate::report::{guarded, Cfg, Monitor, Tier, TrialOut};
use crate::scalar::{show_opt, Scalar};
use crate::xq::Xq;
use sliding_features::View;

pub struct C12;

#[derive(Clone, Copy, Debug, PartialEq)]
enum Rel {
    /// x -> a x + b leaves the output unchanged
    AffineInvariant,
    /// x -> a x leaves the output unchanged
    ScaleInvariant,
    /// x -> a x scales the output by a
    ScaleEquivariant,
    /// x -> -x negates the output
    NegationOdd,
    /// x -> -x maps Rsi to 100 - Rsi
    NegationRsi,
    /// Min(-x) = -Max(x)
    NegationMinMax,
}

#[derive(Clone, Debug)]
struct Case {
    name: &'static str,
    spec: Spec,
    rel: Rel,
    /// involves an irrational function of data-dependent, differently scaled arguments
    irrational: bool,
    /// only ever forms differences of inputs (dyadic offsets are bit-exact in f64)
    differences_only: bool,
    positive: bool,
    n: usize,
}

fn cases(n: usize, rng: &mut Rng) -> Vec<Case> {
    let n1 = n.max(1);
    let n2 = n.max(2);
    let n3 = n.max(3);
    let ma = || Spec::leaf(Kind::Ema(3));
    let mk = |name, spec: Spec, rel, irrational, differences_only, positive| Case { name, n: super::c17::spec_n(&spec), spec, rel, irrational, differences_only, positive };
    let g = *rng.pick(&[0.0, 0.5, 0.75, 0.9375]);
    let m = *rng.pick(&[1usize, 3, 8]);
    use Rel::*;
    vec![
        mk("HLNormalizer", Spec::leaf(Kind::HL(n1)), AffineInvariant, false, true, false),
        mk("Vsct", Spec::leaf(Kind::Vsct(n1)), AffineInvariant, true, false, false),
        mk("CorrelationTrendIndicator", Spec::leaf(Kind::Cti(n2)), AffineInvariant, true, false, false),
        mk("NoiseEliminationTechnology", Spec::leaf(Kind::Net(n2)), AffineInvariant, false, true, false),
        mk("EhlersFisherTransform", Spec::ma(MaK::Eft, n2, Spec::Echo, ma()), AffineInvariant, false, true, false),
        mk("Rsi", Spec::leaf(Kind::Rsi(n1)), ScaleInvariant, false, true, false),
        mk("MyRSI", Spec::leaf(Kind::MyRsi(n1)), ScaleInvariant, false, true, false),
        mk("LaguerreRSI", Spec::leaf(Kind::LagRsi(n2)), ScaleInvariant, false, false, false),
        mk("Vst", Spec::leaf(Kind::Vst(n1)), ScaleInvariant, true, false, false),
        mk("Roc", Spec::leaf(Kind::Roc(n1)), ScaleInvariant, false, false, false),
        mk("CenterOfGravity", Spec::leaf(Kind::Cog(n1)), ScaleInvariant, false, false, false),
        mk("BinaryEntropy", Spec::leaf(Kind::BinEnt(n1)), ScaleInvariant, false, false, false),
        mk("TrendFlex", Spec::leaf(Kind::TrendFlex(n1)), ScaleInvariant, true, false, false),
        mk("ReFlex", Spec::leaf(Kind::ReFlex(n2)), ScaleInvariant, true, false, false),
        mk("LnReturn", Spec::leaf(Kind::LnReturn), ScaleInvariant, false, false, true),
        mk("Drawdown", Spec::leaf(Kind::Drawdown), ScaleInvariant, false, false, true),
        mk("Min", Spec::leaf(Kind::Min(n1)), ScaleEquivariant, false, false, false),
        mk("Max", Spec::leaf(Kind::Max(n1)), ScaleEquivariant, false, false, false),
        mk("Sma", Spec::leaf(Kind::Sma(n1)), ScaleEquivariant, false, false, false),
        mk("Ema", Spec::leaf(Kind::Ema(n1)), ScaleEquivariant, false, false, false),
        mk("Alma", Spec::leaf(Kind::Alma(n1)), ScaleEquivariant, false, false, false),
        mk("Cumulative", Spec::leaf(Kind::Cumulative(n1)), ScaleEquivariant, false, false, false),
        mk("WelfordOnline", Spec::leaf(Kind::Welford(n1)), ScaleEquivariant, true, false, false),
        mk("LaguerreFilter", Spec::leaf(Kind::LagFilter(g)), ScaleEquivariant, false, false, false),
        mk("SuperSmoother", Spec::leaf(Kind::SuperSmoother(n1)), ScaleEquivariant, false, false, false),
        mk("RoofingFilter", Spec::leaf(Kind::Roofing(n2, m)), ScaleEquivariant, false, false, false),
        mk("CyberCycle", Spec::leaf(Kind::Cyber(n3)), ScaleEquivariant, false, false, false),
        mk("HLNormalizer", Spec::leaf(Kind::HL(n1)), NegationOdd, false, true, false),
        mk("Vsct", Spec::leaf(Kind::Vsct(n1)), NegationOdd, false, false, false),
        mk("Vst", Spec::leaf(Kind::Vst(n1)), NegationOdd, false, false, false),
        mk("MyRSI", Spec::leaf(Kind::MyRsi(n1)), NegationOdd, false, true, false),
        mk("CorrelationTrendIndicator", Spec::leaf(Kind::Cti(n2)), NegationOdd, false, false, false),
        mk("NoiseEliminationTechnology", Spec::leaf(Kind::Net(n2)), NegationOdd, false, true, false),
        mk("TrendFlex", Spec::leaf(Kind::TrendFlex(n1)), NegationOdd, false, false, false),
        mk("ReFlex", Spec::leaf(Kind::ReFlex(n2)), NegationOdd, false, false, false),
        mk("Rsi", Spec::leaf(Kind::Rsi(n1)), NegationRsi, false, true, false),
        mk("Min", Spec::leaf(Kind::Min(n1)), NegationMinMax, false, true, false),
    ]
}
pub const N_CASES: usize = 37;

fn rel_name(r: Rel) -> &'static str {
    match r {
        Rel::AffineInvariant => "affine-invariant",
        Rel::ScaleInvariant => "scale-invariant",
        Rel::ScaleEquivariant => "scales-by-a",
        Rel::NegationOdd | Rel::NegationRsi | Rel::NegationMinMax => "negation",
    }
}

fn drive<T: Scalar>(spec: &Spec, xs: &[T]) -> Option<Vec<Option<T>>> {
    let r = guarded(|| {
        let mut v = build_plain::<T>(spec);
        xs.iter()
            .map(|x| {
                v.update(*x);
                v.last()
            })
            .collect::<Vec<_>>()
    });
    match r {
        Ok(v) => Some(v),
        Err(m) => {
            if m.starts_with("XQ-BLOWN") {
                std::panic::resume_unwind(Box::new(m));
            }
            None
        }
    }
}

#[derive(Clone, Copy, Debug, PartialEq)]
enum Mode {
    /// exact scalar, arbitrary rational a, b
    Exact,
    /// f64, a a power of two (and a dyadic b where allowed): bit identity
    Pow2,
    /// f64, general a and b: tolerance on well-conditioned windows
    General,
}

fn run<T: Scalar>(c: &Case, xs: &[f64], a: f64, b: f64, mode: Mode, out: &mut TrialOut) {
    let cell = format!("{}/{}/{:?}", c.name, rel_name(c.rel), mode);
    let xt: Vec<T> = xs.iter().map(|x| T::of(*x)).collect();
    let (ta, tb) = (T::of(a), T::of(b));
    let mapped: Vec<T> = match c.rel {
        Rel::AffineInvariant => xt.iter().map(|x| ta * *x + tb).collect(),
        Rel::ScaleInvariant | Rel::ScaleEquivariant => xt.iter().map(|x| ta * *x).collect(),
        _ => xt.iter().map(|x| -*x).collect(),
    };
    let spec2 = if c.rel == Rel::NegationMinMax { Spec::leaf(Kind::Max(c.n)) } else { c.spec.clone() };
    let (Some(o1), Some(o2)) = (drive(&c.spec, &xt), drive(&spec2, &mapped)) else {
        out.count("trials_ended_by_panic_of_code_under_test(C15)", 1);
        return;
    };
    // for Min/-Max the roles are: Min(-x) vs -Max(x)
    let (o1, o2) = if c.rel == Rel::NegationMinMax { (drive(&Spec::leaf(Kind::Max(c.n)), &xt).unwrap(), drive(&c.spec, &mapped).unwrap()) } else { (o1, o2) };
    let window = match &c.spec {
        Spec::Un(Kind::Rsi(n), _) | Spec::Un(Kind::MyRsi(n), _) => n + 1,
        _ => c.n.max(1),
    };
    let negation = matches!(c.rel, Rel::NegationOdd | Rel::NegationRsi | Rel::NegationMinMax);
    // recursive ratio views: their conditioning is that of the reference denominator (CU+CD resp.
    // the leaky mean square), not of the input window; only the tolerance-based f64 comparisons
    // look at it
    let ref_den: Option<Vec<f64>> = if T::EXACT {
        None
    } else {
        match &c.spec {
            Spec::Un(Kind::LagRsi(n), _) => Some(crate::oracle::ehlers::laguerre_rsi(xs, *n).into_iter().map(|(_, d)| d).collect()),
            Spec::Un(Kind::TrendFlex(n), _) => Some(crate::oracle::ehlers::trend_flex(xs, *n).into_iter().map(|(_, d)| d.sqrt()).collect()),
            Spec::Un(Kind::ReFlex(n), _) => Some(crate::oracle::ehlers::re_flex(xs, *n).into_iter().map(|(_, d)| d.sqrt()).collect()),
            _ => None,
        }
    };
    let mut big = 0f64;
    let (mut hlo, mut hhi) = (f64::INFINITY, f64::NEG_INFINITY);
    let on_welford = matches!(c.name, "Vst" | "Vsct" | "WelfordOnline");
    for t in 0..xs.len() {
        big = big.max(xs[t].abs());
        hlo = hlo.min(xs[t]);
        hhi = hhi.max(xs[t]);
        let w = &xs[(t + 1).saturating_sub(window)..=t];
        let lo = w.iter().cloned().fold(f64::INFINITY, f64::min);
        let hi = w.iter().cloned().fold(f64::NEG_INFINITY, f64::max);
        let flat = lo == hi;
        // degenerate (flat) windows are exempt where the flat-window convention is not itself
        // invariant: Vst returns the value itself, Rsi returns 100
        if flat && (c.name == "Vst" || c.rel == Rel::NegationRsi) {
            out.count("steps_exempt_degenerate_window", 1);
            continue;
        }
        // views on WelfordOnline's running m2: a window whose exact variance lies inside the rounding
        // residue of that accumulator (about eps x level x spread of the history per update; the
        // known findings of C07 / C16) may be taken for flat, and Vst's flat-window convention (the
        // value itself) is not invariant.  A failure on such a step is reported under its own
        // predicate (a known finding), any other one under "any".
        let mut in_residue = false;
        if !T::EXACT && on_welford && w.len() > 1 {
            let var_e = crate::xq::scoped(|| {
                let wq: Vec<Xq> = w.iter().map(|x| Xq::of(*x)).collect();
                crate::oracle::window::sample_var(&wq).f()
            });
            if !(var_e > 64.0 * f64::EPSILON * big * (hhi - hlo) * ((t + 1) as f64).sqrt()) {
                out.count("f64_steps_with_window_variance_inside_m2_rounding_residue", 1);
                in_residue = true;
            }
        }
        let (p, q) = (o1[t], o2[t]);
        let expect: Option<T> = match c.rel {
            Rel::AffineInvariant | Rel::ScaleInvariant => p,
            Rel::ScaleEquivariant => p.map(|v| ta * v),
            Rel::NegationOdd | Rel::NegationMinMax => p.map(|v| -v),
            Rel::NegationRsi => p.map(|v| T::of(100.0) - v),
        };
        let ok = match (expect, q) {
            (None, None) => true,
            (Some(e), Some(g)) => match mode {
                Mode::Exact => {
                    if c.irrational {
                        (g.f() - e.f()).abs() <= 1e-12 * (1.0 + e.f().abs())
                    } else {
                        g.same(e)
                    }
                }
                Mode::Pow2 if !negation => g.same(e) || (g.f() == 0.0 && e.f() == 0.0) || (g.f().abs() < 1e-280 && e.f().abs() < 1e-280 && (g.f() - e.f()).abs() < 1e-290),
                _ => {
                    // judged on well-conditioned windows only
                    let off = if negation { 0.0 } else { b.abs() / a.max(1e-300) };
                    // CoG divides by the sum of the window: ill-conditioned when that sum cancels
                    if let Some(d) = &ref_den {
                        if !(d[t] > big / 65536.0) {
                            out.count("f64_steps_skipped_reference_denominator_small", 1);
                            continue;
                        }
                    }
                    let cancels = c.name == "CenterOfGravity" && !(w.iter().sum::<f64>().abs() > w.iter().map(|x| x.abs()).sum::<f64>() / 256.0);
                    if cancels || !(hi - lo > (big + off) / 256.0) {
                        out.count("f64_steps_skipped_ill_conditioned_window", 1);
                        continue;
                    }
                    (g.f() - e.f()).abs() <= 1e-5 * (1.0 + e.f().abs())
                }
            },
            _ => false,
        };
        out.cell(&cell, 1);
        if !ok {
            out.violation(
                c.name,
                rel_name(c.rel),
                if in_residue { "window_variance_inside_running_m2_rounding_residue" } else { "any" },
                format!(
                    "{} at {} ({:?}): step {}: output on the mapped stream ({}) = {}, expected {} from the output on x = {}\n{}",
                    c.spec.show(),
                    T::NAME,
                    mode,
                    t,
                    match c.rel {
                        Rel::AffineInvariant => format!("x -> {:?} x + {:?}", a, b),
                        Rel::ScaleInvariant | Rel::ScaleEquivariant => format!("x -> {:?} x", a),
                        _ => "x -> -x".to_string(),
                    },
                    show_opt(q),
                    show_opt(expect),
                    show_opt(p),
                    show_inputs(xs, t, c.n + 6)
                ),
            );
            return;
        }
    }
}

fn ns(cfg: &Cfg) -> Vec<usize> {
    match cfg.tier {
        Tier::Quick => vec![1, 2, 3, 5, 8, 21],
        Tier::Thorough => (1..=64).collect(),
    }
}
const CLASSES: [Class; 8] = [Class::Walk, Class::SmallInt, Class::Uniform, Class::Blocks, Class::Spike, Class::VolatileThenFlat, Class::Step, Class::Alternating];

impl Monitor for C12 {
    fn id(&self) -> &'static str {
        "C12"
    }
    fn plan(&self, cfg: &Cfg) -> u64 {
        (N_CASES * ns(cfg).len() * 3) as u64 * cfg.tier.pick(2, 10)
    }
    fn trial(&self, cfg: &Cfg, idx: u64, out: &mut TrialOut) {
        let nl = ns(cfg);
        let mut rng = Rng::for_trial(cfg.seed, "C12", idx);
        let ci = (idx % N_CASES as u64) as usize;
        let n = nl[((idx / N_CASES as u64) % nl.len() as u64) as usize];
        let n = super::jitter_n(cfg, n, 1, 40, &mut rng);
        let mode = match (idx / (N_CASES * nl.len()) as u64) % 3 {
            0 => Mode::Exact,
            1 => Mode::Pow2,
            _ => Mode::General,
        };
        let c = cases(n, &mut rng)[ci].clone();
        let class = *rng.pick(&CLASSES);
        let recursive = matches!(c.name, "SuperSmoother" | "RoofingFilter" | "CyberCycle" | "TrendFlex" | "ReFlex" | "LaguerreFilter" | "LaguerreRSI" | "Ema" | "EhlersFisherTransform");
        let len = match mode {
            Mode::Exact => {
                if recursive {
                    60
                } else {
                    (4 * c.n + 30).min(160)
                }
            }
            _ => 4 * c.n + rng.usize(40, 300),
        };
        let mut xs = gen::gen(class, c.n, len, &mut rng);
        // (Drawdown: a quarter of the streams is left as generated, signs and zeros included - the
        // statement quantifies over all finite sequences, and a series that has not been positive yet
        // reports 0 in any unit)
        if c.positive && !(c.name == "Drawdown" && rng.chance(1, 4)) {
            xs = gen::positive(&xs);
        }
        let (a, b) = match mode {
            Mode::Exact => (*rng.pick(&[3.0, 0.1, 2.5, 1.0 / 3.0, 7.0, 0.75, 1000.0, 1e-9, 1e9]), *rng.pick(&[0.0, 1.0, -2.5, 100.0, 1.0 / 3.0, -1000.0])),
            Mode::Pow2 => {
                // incl. very small and very large units (2^-60 .. 2^60): an absolute epsilon or
                // threshold in the code shows only there
                // (2^-200 and 2^200 as well: a flush-to-zero or a saturation placed "far outside any real
                // data" is still a dependence on the unit; squares stay far from under- and overflow)
                let a: f64 = *rng.pick(&[2.0, 0.5, 4.0, 1024.0, 0.0078125, 65536.0, 8.673617379884035e-19, 1.152921504606847e18, 9.313225746154785e-10, 1073741824.0, 2.9802322387695312e-8, 6.223015277861142e-61, 1.6069380442589903e60]);
                // a dyadic offset stays exact only next to a moderate scale
                let moderate = a.log2().abs() <= 20.0;
                // (the generators' values are multiples of 2^-10 below 2^15: adding 2^30 or -2^33 is exact)
                (a, if c.differences_only && moderate { *rng.pick(&[0.0, 1.0, -2.5, 64.0, 1024.0, 1073741824.0, -8589934592.0]) } else { 0.0 })
            }
            Mode::General => (*rng.pick(&[3.0, 0.1, 2.5, 7.0, 0.3]), if c.irrational { *rng.pick(&[0.0, 1.0, -2.5]) } else { *rng.pick(&[0.0, 1.0, -2.5, 10.0]) }),
        };
        // a fifth of the power-of-two trials runs at a high level (2^30 or 2^34 above the generated
        // values, which stay exact): scaling by a power of two is bit-exact at any level, whereas a
        // guard that compares the spread with the level ("variance below eps x mean^2 is noise") gives
        // the level a meaning it must not have
        if mode == Mode::Pow2 && a.log2().abs() <= 20.0 && rng.chance(1, 5) {
            let level = *rng.pick(&[1073741824.0, 17179869184.0]);
            for x in xs.iter_mut() {
                *x += level;
            }
            out.count("power_of_two_trials_at_a_high_level", 1);
        }
        // a quarter of the offset trials shifts the stream so that its first sample is exactly 0
        // (a sentinel such as "min == 0 means nothing seen yet" shows only there)
        let (a, b) = if c.rel == Rel::AffineInvariant && !xs.is_empty() && rng.chance(1, 4) && (mode == Mode::Exact || (mode == Mode::Pow2 && c.differences_only && a.log2().abs() <= 20.0)) {
            out.count("offset_trials_with_first_sample_mapped_to_zero", 1);
            (a, -a * xs[0])
        } else {
            (a, b)
        };
        // in Pow2 mode an offset is only bit-exact for the difference-only views; the others of the
        // affine list get b = 0 there (their offset invariance is decided at the exact scalar)
        out.key(mix(hash_str(&format!("{}{:?}{:?}{}{}", c.spec.show(), c.rel, mode, a, b)), gen::hash_f64s(&xs)));
        if idx % 199 == 0 {
            out.sample(format!("{} relation {:?} mode {:?}: a = {}, b = {}, class {:?}, {} steps", c.spec.show(), c.rel, mode, a, b, class, len));
        }
        match mode {
            Mode::Exact => run::<Xq>(&c, &xs, a, b, mode, out),
            _ => run::<f64>(&c, &xs, a, b, mode, out),
        }
    }
    fn required_cells(&self, _cfg: &Cfg) -> Vec<String> {
        let mut rng = Rng::new(0);
        let mut v = vec![];
        for c in cases(5, &mut rng) {
            for m in [Mode::Exact, Mode::Pow2] {
                v.push(format!("{}/{}/{:?}", c.name, rel_name(c.rel), m));
            }
        }
        v.sort();
        v.dedup();
        v
    }
    fn rule(&self) -> String {
        "trial = (one of 37 (view, relation) pairs from the statement's three lists; N; input class with ties; mode): two instances fed x and the mapped stream (a x + b, a x, or -x); after every update the second output must be the first (invariant), a times the first (scaling views), its negative / 100 minus it / -Max for Min (negation). Exact mode: exact scalar, rational a in {3, 0.1, 2.5, 1/3, 7, 0.75, 1000, 1e-9, 1e9} and b, equality (1e-12 where a root of differently scaled data is taken). Pow2 mode: f64, a a power of two from 2^-60 to 2^60 (and a dyadic b for the views that only form differences), bit identity. General mode: f64, general a, b, 1e-6 on well-conditioned windows. Flat windows are exempt only for Vst (returns the value) and Rsi's negation (returns 100). distinct = distinct (pair, N, mode, a, b, input hash)".into()
    }
    fn assumptions(&self) -> Vec<String> {
        vec!["offset invariance of Vsct and CTI in f64 is judged with small offsets on well-conditioned windows only (large offsets are C16's clause); their algebra is decided at the exact scalar".into()]
    }
    fn design_ref(&self) -> &'static str {
        "DESIGN.md 3/C12"
    }
}
