//! One monitor per property.

use crate::dynview::Dyn;
use crate::report::Monitor;
use crate::scalar::Scalar;
use sliding_features::View;

pub mod c01;
pub mod c02;
pub mod c03;
pub mod c04;
pub mod c05;
pub mod c06;
pub mod c08;
pub mod c11;
pub mod c14;
pub mod c15;
pub mod c17;
pub mod c18;

pub fn by_id(id: &str) -> Option<Box<dyn Monitor>> {
    Some(match id {
        "C01" => Box::new(c01::C01),
        "C02" => Box::new(c02::C02),
        "C03" => Box::new(c03::C03),
        "C04" => Box::new(c04::C04),
        "C05" => Box::new(c05::C05),
        "C06" => Box::new(c06::C06),
        "C08" => Box::new(c08::C08),
        "C11" => Box::new(c11::C11),
        "C14" => Box::new(c14::C14),
        "C15" => Box::new(c15::C15),
        "C18" => Box::new(c18::C18),
        "C17" => Box::new(c17::C17),
        _ => return None,
    })
}

/// feed `xs` one by one, recording `last()` after every update
pub fn drive<T: Scalar>(v: &mut Dyn<T>, xs: &[f64]) -> Vec<Option<T>> {
    let mut out = Vec::with_capacity(xs.len());
    for x in xs {
        v.update(T::of(*x));
        out.push(v.last());
    }
    out
}

/// the inputs up to and including `step`, at most the last `keep`, written so that they round-trip
pub fn show_inputs(xs: &[f64], step: usize, keep: usize) -> String {
    let end = (step + 1).min(xs.len());
    let start = end.saturating_sub(keep);
    let body: Vec<String> = xs[start..end].iter().map(|x| format!("{:?}", x)).collect();
    format!(
        "inputs[{}..{}] (of {}): [{}]",
        start,
        end,
        xs.len(),
        body.join(", ")
    )
}

pub fn hash_str(s: &str) -> u64 {
    let mut h = 0xcbf2_9ce4_8422_2325u64;
    for b in s.bytes() {
        h = (h ^ b as u64).wrapping_mul(0x100_0000_01B3);
    }
    h
}
pub fn mix(a: u64, b: u64) -> u64 {
    let mut z = a ^ b.wrapping_mul(0x9E37_79B9_7F4A_7C15);
    z = (z ^ (z >> 30)).wrapping_mul(0xBF58_476D_1CE4_E5B9);
    z ^ (z >> 31)
}
