//! One monitor per property.

use crate::dynview::Dyn;
use crate::report::Monitor;
use crate::scalar::Scalar;
use sliding_features::View;

pub mod c01;
pub mod c02;
pub mod c03;
pub mod c04;
pub mod c05;
pub mod c06;
pub mod c07;
pub mod c08;
pub mod c09;
pub mod c10;
pub mod c11;
pub mod c12;
pub mod c13;
pub mod c14;
pub mod c15;
pub mod c16;
pub mod c17;
pub mod c18;

pub fn by_id(id: &str) -> Option<Box<dyn Monitor>> {
    Some(match id {
        "C01" => Box::new(c01::C01),
        "C02" => Box::new(c02::C02),
        "C03" => Box::new(c03::C03),
        "C04" => Box::new(c04::C04),
        "C05" => Box::new(c05::C05),
        "C06" => Box::new(c06::C06),
        "C07" => Box::new(c07::C07),
        "C08" => Box::new(c08::C08),
        "C09" => Box::new(c09::C09),
        "C10" => Box::new(c10::C10),
        "C11" => Box::new(c11::C11),
        "C12" => Box::new(c12::C12),
        "C13" => Box::new(c13::C13),
        "C14" => Box::new(c14::C14),
        "C15" => Box::new(c15::C15),
        "C18" => Box::new(c18::C18),
        "C16" => Box::new(c16::C16),
        "C17" => Box::new(c17::C17),
        _ => return None,
    })
}

/// feed `xs` one by one, recording `last()` after every update
pub fn drive<T: Scalar>(v: &mut Dyn<T>, xs: &[f64]) -> Vec<Option<T>> {
    let mut out = Vec::with_capacity(xs.len());
    for x in xs {
        v.update(T::of(*x));
        out.push(v.last());
    }
    out
}

/// the inputs up to and including `step`, at most the last `keep`, written so that they round-trip
pub fn show_inputs(xs: &[f64], step: usize, keep: usize) -> String {
    let end = (step + 1).min(xs.len());
    let start = end.saturating_sub(keep);
    let body: Vec<String> = xs[start..end].iter().map(|x| format!("{:?}", x)).collect();
    format!(
        "inputs[{}..{}] (of {}): [{}]",
        start,
        end,
        xs.len(),
        body.join(", ")
    )
}

pub fn hash_str(s: &str) -> u64 {
    let mut h = 0xcbf2_9ce4_8422_2325u64;
    for b in s.bytes() {
        h = (h ^ b as u64).wrapping_mul(0x100_0000_01B3);
    }
    h
}
pub fn mix(a: u64, b: u64) -> u64 {
    let mut z = a ^ b.wrapping_mul(0x9E37_79B9_7F4A_7C15);
    z = (z ^ (z >> 30)).wrapping_mul(0xBF58_476D_1CE4_E5B9);
    z ^ (z >> 31)
}

/// Known-finding predicate shared by C07 and C16: is the deviation of a Vst / Vsct output from its
/// exact reference explained by the rounding residue that WelfordOnline's running mean and m2 may
/// legitimately carry (the a-priori envelope C02 holds the code to: 64 eps x steps x (N+1) x 4 M^2
/// on m2, 64 eps x steps x M on the mean), amplified by the division by the window's std?
/// True also when the exact window variance itself is inside that envelope (flat or nearly flat
/// window).  Anything not explained this way keeps the predicate "any".
pub fn welford_residue_explains(kind: &crate::dynview::Kind, xs: &[f64], t: usize, got: f64, eps: f64) -> bool {
    use crate::oracle::window as ow;
    use crate::xq::Xq;
    let n = kind.n().unwrap_or(1).max(1);
    let steps = (t + 1) as f64;
    let big = xs[..=t].iter().fold(0f64, |m, x| m.max(x.abs()));
    let w: Vec<Xq> = xs[(t + 1).saturating_sub(n)..=t].iter().map(|x| Xq::of(*x)).collect();
    let nw = w.len() as f64;
    let v = ow::sample_var(&w).f();
    let e_var = 64.0 * eps * steps * (n as f64 + 1.0) * 4.0 * big * big / (nw - 1.0).max(1.0);
    let e_mean = 64.0 * eps * steps * big;
    if !(v > 4.0 * e_var) {
        return true;
    }
    let std = v.sqrt();
    let r = match kind {
        crate::dynview::Kind::Vst(_) => ow::vst(&w).f(),
        _ => ow::vsct(&w).f(),
    };
    let rel = e_var / v;
    let extra = if matches!(kind, crate::dynview::Kind::Vsct(_)) { 2.0 * e_mean / std } else { 0.0 };
    (got - r).abs() <= 2.0 * r.abs() * rel + extra
}

/// Quick tier only: half of the trials replace the window length taken from the fixed grid by a
/// random one in [lo, hi], so that over the trials of one run (and over seeds) every length gets
/// some coverage, not just the grid's.
pub fn jitter_n(cfg: &crate::report::Cfg, n: usize, lo: usize, hi: usize, rng: &mut crate::gen::Rng) -> usize {
    if cfg.tier == crate::report::Tier::Quick && rng.coin() {
        rng.usize(lo, hi)
    } else {
        n
    }
}
