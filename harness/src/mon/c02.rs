//! C02 — window statistics equal their definition over exactly the last N values.
//!
//! Reference model: batch definitions evaluated from the recorded history in exact rational
//! arithmetic (oracle::window at `Xq`).  The real code is run at `Xq` (equality demanded at every
//! step) and at f64 (compared with the exact reference within an a-priori rounding envelope
//! proportional to the largest magnitude seen).

use super::{hash_str, mix, show_inputs};
use crate::dynview::{build_plain, Kind, Spec};
use crate::gen::{self, Class, Rng, ALL_CLASSES};
use crate::oracle::window::{self as ow, Ex};
use crate::report::{guarded, Cfg, Monitor, Tier, TrialOut};
use crate::scalar::Scalar;
use crate::xq::Xq;
use sliding_features::View;

pub struct C02;

pub const LONG_NS: [usize; 6] = [3, 17, 40, 64, 130, 250];
pub const KINDS: [&str; 10] = ["Sma", "Cumulative", "Min", "Max", "WelfordOnline", "HLNormalizer", "Roc", "BinaryEntropy", "Vst", "Vsct"];

pub fn kind_at(i: usize, n: usize) -> Kind {
    match i {
        0 => Kind::Sma(n),
        1 => Kind::Cumulative(n),
        2 => Kind::Min(n),
        3 => Kind::Max(n),
        4 => Kind::Welford(n),
        5 => Kind::HL(n),
        6 => Kind::Roc(n),
        7 => Kind::BinEnt(n),
        8 => Kind::Vst(n),
        _ => Kind::Vsct(n),
    }
}

/// the statement's value of `k` after every step, in exact arithmetic
pub fn reference(k: &Kind, xs: &[Xq]) -> Vec<Ex<Xq>> {
    match *k {
        Kind::Sma(n) => ow::seq_window(xs, n, ow::mean),
        Kind::Cumulative(n) => ow::seq_window(xs, n, ow::sum),
        Kind::Min(n) => ow::seq_window(xs, n, ow::min),
        Kind::Max(n) => ow::seq_window(xs, n, ow::max),
        Kind::Welford(n) => ow::seq_window(xs, n, ow::sample_std),
        Kind::HL(n) => ow::seq_window(xs, n, ow::hl),
        Kind::Roc(n) => ow::seq_roc(xs, n),
        Kind::BinEnt(n) => ow::seq_window(xs, n, ow::entropy),
        Kind::Vst(n) => ow::seq_window(xs, n, ow::vst),
        Kind::Vsct(n) => ow::seq_window(xs, n, ow::vsct),
        _ => unreachable!(),
    }
}

/// step (1-based count of values) from which the statement requires an output
fn must_report_from(k: &Kind) -> usize {
    k.n().unwrap_or(1).max(1)
}

fn semantic_counters(k: &Kind, xs: &[f64], out: &mut TrialOut) {
    let n = k.n().unwrap_or(1).max(1);
    let mut ev = 0;
    let mut ev_ext = 0;
    let mut flat = 0;
    let mut ties = 0;
    let mut zero_base = 0;
    for t in 0..xs.len() {
        let w = &xs[(t + 1).saturating_sub(n)..=t];
        let lo = w.iter().cloned().fold(f64::INFINITY, f64::min);
        let hi = w.iter().cloned().fold(f64::NEG_INFINITY, f64::max);
        if lo == hi && w.len() > 1 {
            flat += 1;
        }
        if w.len() > 1 && (w[..w.len() - 1].contains(&xs[t])) && (xs[t] == lo || xs[t] == hi) {
            ties += 1;
        }
        if t >= n {
            ev += 1;
            let pw = &xs[t - n..t];
            let plo = pw.iter().cloned().fold(f64::INFINITY, f64::min);
            let phi = pw.iter().cloned().fold(f64::NEG_INFINITY, f64::max);
            if xs[t - n] == plo || xs[t - n] == phi {
                ev_ext += 1;
            }
        }
        let base = if t >= n { xs[t - n] } else { xs[0] };
        if base == 0.0 {
            zero_base += 1;
        }
    }
    out.count("evictions", ev);
    out.count("evictions_of_current_extremum", ev_ext);
    out.count("flat_windows(max=min)", flat);
    out.count("newest_ties_with_extremum", ties);
    if matches!(k, Kind::Roc(_)) {
        out.count("roc_zero_base_steps", zero_base);
    }
    out.count("steps_before_window_full", xs.len().min(n - 1) as u64);
    out.count("steps_with_full_window", xs.len().saturating_sub(n - 1) as u64);
}

fn fail(out: &mut TrialOut, k: &Kind, scalar: &str, clause: &str, t: usize, got: String, exp: String, xs: &[f64], extra: &str) {
    out.violation(
        k.name(),
        clause,
        "any",
        format!(
            "{} at {}: step {} (value #{}): got {}, statement gives {} {}\n{}",
            Spec::leaf(*k).show(),
            scalar,
            t,
            t + 1,
            got,
            exp,
            extra,
            show_inputs(xs, t, k.n().unwrap_or(1) + 6)
        ),
    );
}

/// exact run: the crate's code at Xq against the reference at Xq, equality at every step
fn run_exact(k: Kind, xs: &[f64], out: &mut TrialOut) {
    let cell = format!("{}/exact", k.name());
    let xq: Vec<Xq> = xs.iter().map(|x| Xq::of(*x)).collect();
    let refs = reference(&k, &xq);
    let n = k.n().unwrap_or(1).max(1);
    let mut v = build_plain::<Xq>(&Spec::leaf(k));
    for t in 0..xs.len() {
        v.update(xq[t]);
        let got = v.last();
        let must = t + 1 >= must_report_from(&k);
        match (got, refs[t]) {
            (Some(g), Ex::Val(e)) => {
                out.cell(&cell, 1);
                if !g.same(e) {
                    fail(out, &k, "Xq", "definition", t, g.show(), e.show(), xs, "(exact rational arithmetic, equality demanded)");
                    return;
                }
            }
            (Some(g), Ex::Nothing) => {
                out.cell(&cell, 1);
                fail(out, &k, "Xq", "definition", t, g.show(), "no value (nothing to hold yet)".into(), xs, "");
                return;
            }
            (None, Ex::Val(e)) if must => {
                out.cell(&cell, 1);
                fail(out, &k, "Xq", "reports-once-window-full", t, "None".into(), e.show(), xs, "");
                return;
            }
            _ => {}
        }
        if let (Kind::Welford(_), Some((m, var))) = (k, v.aux()) {
            let w = ow::win(&xq[..=t], n);
            let (em, ev) = (ow::mean(w), ow::sample_var(w));
            out.cell("WelfordOnline/getters", 2);
            if !m.same(em) {
                fail(out, &k, "Xq", "mean-getter", t, m.show(), em.show(), xs, "(mean())");
                return;
            }
            if !var.same(ev) {
                fail(out, &k, "Xq", "variance-getter", t, var.show(), ev.show(), xs, "(variance())");
                return;
            }
        }
    }
}

/// f64 run against the exact reference, within the rounding envelope
fn run_f64(k: Kind, xs: &[f64], out: &mut TrialOut) {
    run_f64_when(k, xs, None, out)
}

/// `when`: compare at the selected steps only (the view is still fed every value); the statement's
/// value is then evaluated from the last 3N + 4 values (streams without zeros: no hold reaches
/// further back)
fn run_f64_when(k: Kind, xs: &[f64], when: Option<&dyn Fn(usize) -> bool>, out: &mut TrialOut) {
    let cell = format!("{}/f64", k.name());
    let xq: Vec<Xq> = if when.is_none() { xs.iter().map(|x| Xq::of(*x)).collect() } else { vec![] };
    let refs: Vec<Ex<f64>> = if when.is_none() {
        reference(&k, &xq)
            .into_iter()
            .map(|e| match e {
                Ex::Val(x) => Ex::Val(x.f()),
                Ex::Nothing => Ex::Nothing,
                Ex::Skip => Ex::Skip,
            })
            .collect()
    } else {
        vec![]
    };
    let n = k.n().unwrap_or(1).max(1);
    let mut v = build_plain::<f64>(&Spec::leaf(k));
    let eps = f64::EPSILON;
    let mut big = 0f64; // largest magnitude seen
    for t in 0..xs.len() {
        big = big.max(xs[t].abs());
        let r = guarded(|| {
            v.update(xs[t]);
            v.last()
        });
        let Ok(got) = r else {
            out.count("trials_ended_by_panic_of_code_under_test(C15)", 1);
            return;
        };
        if let Some(f) = when {
            if !f(t) {
                continue;
            }
        }
        let steps = (t + 1) as f64;
        // sampled mode: the exact values of this step only
        let local: Vec<Xq>;
        let _step = crate::xq::Scope::new();
        let (w, ref_t): (&[Xq], Ex<f64>) = if when.is_some() {
            let lo = (t + 1).saturating_sub(3 * n + 4);
            local = xs[lo..=t].iter().map(|x| Xq::of(*x)).collect();
            let r = match reference(&k, &local).last() {
                Some(Ex::Val(x)) => Ex::Val(x.f()),
                Some(Ex::Skip) => Ex::Skip,
                _ => Ex::Nothing,
            };
            (ow::win(&local, n), r)
        } else {
            (ow::win(&xq[..=t], n), refs[t])
        };
        let nw = w.len() as f64;
        let env_mean = 64.0 * eps * steps * big;
        let env_var = 64.0 * eps * steps * (n as f64 + 1.0) * 4.0 * big * big / (nw - 1.0).max(1.0);
        // (the exact quantities of one step are plain floats afterwards: their rationals are given back)
        let (var_e, em) = crate::xq::scoped(|| (ow::sample_var(w).f(), ow::mean(w).f()));
        let std_e = var_e.max(0.0).sqrt();
        let tol_std = if var_e > env_var { 2.0 * env_var / std_e } else { env_var.sqrt() };
        let (Some(g), Ex::Val(e)) = (got, ref_t) else {
            if let (None, Ex::Val(e), true) = (got, ref_t, t + 1 >= must_report_from(&k)) {
                out.cell(&cell, 1);
                fail(out, &k, "f64", "reports-once-window-full", t, "None".into(), format!("{:e}", e), xs, "");
                return;
            }
            if let (Some(g), Ex::Nothing) = (got, ref_t) {
                out.cell(&cell, 1);
                fail(out, &k, "f64", "definition", t, format!("{:e}", g), "no value".into(), xs, "");
                return;
            }
            continue;
        };
        let tol = match k {
            Kind::Sma(_) => env_mean,
            Kind::Cumulative(_) => env_mean * n as f64,
            Kind::Min(_) | Kind::Max(_) => 0.0,
            Kind::Welford(_) => tol_std,
            Kind::HL(_) => 128.0 * eps,
            Kind::Roc(_) => 64.0 * eps * e.abs() + 1e-300,
            Kind::BinEnt(_) => 64.0 * eps,
            Kind::Vst(_) | Kind::Vsct(_) => {
                if std_e <= 1e3 * tol_std {
                    out.count("f64_steps_skipped_std_below_rounding_envelope", 1);
                    continue;
                }
                let rel = tol_std / std_e;
                4.0 * e.abs() * rel + 64.0 * eps * e.abs() + if matches!(k, Kind::Vsct(_)) { 2.0 * env_mean / std_e } else { 0.0 }
            }
            _ => unreachable!(),
        };
        out.cell(&cell, 1);
        out.maxi(&format!("max_abs_error/{}", k.name()), (g - e).abs());
        if !((g - e).abs() <= tol) {
            fail(
                out,
                &k,
                "f64",
                "definition",
                t,
                format!("{:e}", g),
                format!("{:e}", e),
                xs,
                &format!("(difference {:e} exceeds the rounding envelope {:e}; largest magnitude seen {:e})", (g - e).abs(), tol, big),
            );
            return;
        }
        if let (Kind::Welford(_), Some((m, var))) = (k, v.aux()) {
            let ev = var_e;
            out.cell("WelfordOnline/getters", 2);
            if !((m - em).abs() <= env_mean) {
                fail(out, &k, "f64", "mean-getter", t, format!("{:e}", m), format!("{:e}", em), xs, &format!("(envelope {:e})", env_mean));
                return;
            }
            if !((var - ev).abs() <= env_var) {
                fail(out, &k, "f64", "variance-getter", t, format!("{:e}", var), format!("{:e}", ev), xs, &format!("(envelope {:e})", env_var));
                return;
            }
        }
    }
}

fn ns(cfg: &Cfg) -> Vec<usize> {
    match cfg.tier {
        Tier::Quick => vec![1, 2, 3, 4, 5, 7, 12, 30],
        Tier::Thorough => (1..=40).chain([48, 56, 64, 100, 257]).collect(),
    }
}

pub fn classes() -> Vec<Class> {
    ALL_CLASSES.to_vec()
}

impl Monitor for C02 {
    fn id(&self) -> &'static str {
        "C02"
    }
    fn plan(&self, cfg: &Cfg) -> u64 {
        (ns(cfg).len() * KINDS.len() * classes().len()) as u64 * cfg.tier.pick(2, 4) + LONG_NS.len() as u64 * KINDS.len() as u64 * cfg.tier.pick(2, 8) + KINDS.len() as u64 * cfg.tier.pick(6, 12)
    }
    fn trial(&self, cfg: &Cfg, idx: u64, out: &mut TrialOut) {
        let nl = ns(cfg);
        let cl = classes();
        let mut rng = Rng::for_trial(cfg.seed, "C02", idx);
        let main = (nl.len() * KINDS.len() * cl.len()) as u64 * cfg.tier.pick(2, 4);
        let long = LONG_NS.len() as u64 * KINDS.len() as u64 * cfg.tier.pick(2, 8);
        if idx >= main + long {
            // histories beyond 2^16 (and 2^17) values at f64, compared at every 997th step, around
            // the 65 536th and 131 072nd value and at the end: a position or age kept in 16 bits
            // wraps there.  Positive values (no zero base for Roc, no hold).
            let j = idx - main - long;
            let ki = (j % KINDS.len() as u64) as usize;
            let n = *rng.pick(&[1usize, 2, 3, 8, 32]);
            let _ = kind_at(ki, n);
            let rep = j / KINDS.len() as u64;
            // repetition 3: beyond 2^20 values; repetition 4: beyond 2^24 (a period or a counter of that
            // size is a natural choice for "every now and then" bookkeeping)
            let len = match rep {
                3 => (1 << 20) + rng.usize(200, 3000),
                4 => (1 << 24) + rng.usize(200, 3000),
                _ => rng.usize(66_000, 70_000) + if rng.coin() { 65_536 } else { 0 },
            };
            let n = if rep == 3 || rep == 4 { *rng.pick(&[2usize, 4, 10]) } else { n };
            let k = kind_at(ki, n);
            let style = rep % 3;
            let mut lvl = 0.0f64;
            let xs: Vec<f64> = (0..len)
                .map(|i| match style {
                    0 => 1.0 + rng.range(0, 4096) as f64 / 256.0,                  // noise
                    1 => 1.0 + i as f64 / 128.0 + rng.range(0, 64) as f64 / 16.0, // noisy rise: old minima are never undercut
                    _ => {
                        lvl = (lvl + rng.range(-2, 2) as f64 / 8.0).clamp(0.0, 50.0); // slow walk with ties
                        2.0 + lvl
                    }
                })
                .collect();
            out.key(mix(hash_str(&format!("verylong{:?}", k)), gen::hash_f64s(&xs[xs.len() - 64..])));
            out.count("histories_beyond_65536_values", 1);
            out.maxi("longest_stream", len as f64);
            let sparse = if len > 200_000 { 99_991 } else { 997 };
            let when = |t: usize| t % sparse == 0 || (65_500..65_620).contains(&t) || (131_030..131_150).contains(&t) || (1_048_540..1_048_640).contains(&t) || (16_777_180..16_777_280).contains(&t) || t + 64 >= len;
            run_f64_when(k, &xs, Some(&when), out);
            return;
        }
        if idx >= main {
            // long histories and large windows: state that goes wrong only after thousands of
            // updates, or only for windows beyond some internal threshold, must be reached too
            let j = idx - main;
            let ki = (j % KINDS.len() as u64) as usize;
            let n = LONG_NS[((j / KINDS.len() as u64) % LONG_NS.len() as u64) as usize];
            let rep = j / (KINDS.len() * LONG_NS.len()) as u64;
            let k = kind_at(ki, n);
            let class = *rng.pick(&[Class::Uniform, Class::Walk, Class::SmallInt, Class::Blocks]);
            let exact = rep % 2 == 0;
            // the exact run is O(N) big-rational operations per step: shorter for the largest windows
            let len = if exact { (2600usize).min(120_000 / n.max(8)).max(4 * n + 700) } else { cfg.tier.pick(5000, 9000) + 4 * n };
            let xs = gen::gen(class, n, len, &mut rng);
            out.key(mix(hash_str(&format!("long{:?}{}", k, exact)), gen::hash_f64s(&xs)));
            out.count("long_history_trials", 1);
            out.maxi("longest_stream", len as f64);
            if exact {
                run_exact(k, &xs, out);
            } else {
                run_f64(k, &xs, out);
            }
            return;
        }
        let ki = (idx % KINDS.len() as u64) as usize;
        let n = nl[((idx / KINDS.len() as u64) % nl.len() as u64) as usize];
        let n = super::jitter_n(cfg, n, 1, 64, &mut rng);
        let class = cl[((idx / (KINDS.len() * nl.len()) as u64) % cl.len() as u64) as usize];
        let rep = idx / (KINDS.len() * nl.len() * cl.len()) as u64;
        let k = kind_at(ki, n);
        let exact = rep % 2 == 0;
        let len = if exact {
            (4 * n + 50).min(cfg.tier.pick(260, 420))
        } else {
            (4 * n + 50).max(cfg.tier.pick(400, 1200))
        };
        let mut xs = gen::gen(class, n, len, &mut rng);
        // a quarter of the trials give every exact zero a random sign (-0.0 is a zero like any other);
        // an eighth of the f64 trials of the views that only compare, subtract and divide their inputs
        // run in units of 2^-1064 (every value a subnormal number, computed without rounding)
        if rng.chance(1, 4) {
            for x in xs.iter_mut() {
                if *x == 0.0 && rng.coin() {
                    *x = -0.0;
                }
            }
            out.count("trials_with_signed_zeros", 1);
        }
        if !exact && matches!(k, Kind::Roc(_) | Kind::HL(_) | Kind::BinEnt(_) | Kind::Min(_) | Kind::Max(_)) && rng.chance(1, 8) {
            for x in xs.iter_mut() {
                *x *= 2f64.powi(-532) * 2f64.powi(-532);
            }
            out.count("f64_trials_in_subnormal_units", 1);
        }
        out.key(mix(hash_str(&format!("{:?}{}", k, exact)), gen::hash_f64s(&xs)));
        semantic_counters(&k, &xs, out);
        if idx % 173 == 0 {
            out.sample(format!(
                "{} at {} on class {:?}: {} values, first {:?}",
                Spec::leaf(k).show(),
                if exact { "Xq (equality)" } else { "f64 (envelope)" },
                class,
                xs.len(),
                &xs[..xs.len().min(10)]
            ));
        }
        if exact {
            run_exact(k, &xs, out);
        } else {
            run_f64(k, &xs, out);
        }
    }
    fn required_cells(&self, _cfg: &Cfg) -> Vec<String> {
        let mut v = vec![];
        for k in KINDS {
            v.push(format!("{}/exact", k));
            v.push(format!("{}/f64", k));
        }
        v.push("WelfordOnline/getters".into());
        v
    }
    fn rule(&self) -> String {
        "trial = (view kind of the ten listed, N, input class of the 18-class catalogue, scalar), plus long-history trials (2600..9000 values, N in {3, 17, 40, 64, 130, 250}) and, at f64, histories of 66 000..135 000 positive values (and one each beyond 2^20 and 2^24 values) compared at sparse checkpoints, at every step around the 2^16th, 2^17th, 2^20th and 2^24th value and at the end; the real view is fed the stream and after every update its last() (and WelfordOnline's mean()/variance()) is compared with the batch definition evaluated from the recorded history over the last min(t,N) values in exact rational arithmetic: equality at the exact scalar, a-priori rounding envelope (64 eps x steps x largest magnitude seen, scaled per statistic) at f64. distinct = distinct (kind, N, scalar, input hash); non-trivial = at least one Some output compared. Semantic counters (evictions, evictions of the current extremum, flat windows, ties, zero bases) are measured on the inputs by the oracle.".into()
    }
    fn assumptions(&self) -> Vec<String> {
        vec![
            "sample standard deviation of a single value is taken to be 0 (the statement leaves 0/0 open)".into(),
            "f64 steps of Vst/Vsct whose exact std is below the rounding envelope are skipped here (C16's flat clause owns them) and counted".into(),
            "Xq's sqrt/log2 are deterministic functions of the exact argument shared by code and oracle".into(),
        ]
    }
    fn design_ref(&self) -> &'static str {
        "DESIGN.md 3/C02"
    }
}
