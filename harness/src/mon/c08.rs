//! C08 — readiness: None during warm-up, then a finite value for ever.
//!
//! Readiness automaton per node (every view alone, every node of two/three-level chains via
//! Taps): NotReady -> Ready; Ready -> None is a violation; a non-finite Some is a violation; the
//! step of the first Some must match the documented table; a wrapper whose inner view (a Script)
//! delivers nothing must keep answering what it answered right after construction.
//! "For ever" is restated as: no relapse and no non-finite value within runs of 7x10^4 (quick) /
//! 10^6 (thorough) updates.

use super::{hash_str, mix, show_inputs};
use crate::catalogue::{self, all_unary, BINS};
use crate::dynview::{build, BinK, Env, Kind, MaK, Spec, TapLog};
use crate::gen::{self, Class, Rng, ALL_CLASSES};
use crate::report::{guarded, Cfg, Monitor, Profile, Tier, TrialOut};
use crate::scalar::{same_opt, show_opt, Scalar};
use crate::xq::Xq;
use sliding_features::View;

pub struct C08;

const BIG: f64 = 1.0995116e12; // 2^40: beyond this a node's output is no longer "moderate" input
const TINY: f64 = 9.094947e-13; // 2^-40: non-zero magnitudes below this neither (ratios overflow)

/// wrap every node of `s` in a Tap; ids in pre-order
fn tapped(s: &Spec, next: &mut usize) -> Spec {
    let id = *next;
    *next += 1;
    let inner = match s {
        Spec::Un(k, i) => Spec::un(*k, tapped(i, next)),
        Spec::Bin(k, a, b) => {
            let a = tapped(a, next);
            let b = tapped(b, next);
            Spec::bin(*k, a, b)
        }
        Spec::Ma(k, n, v, m) => Spec::ma(*k, *n, tapped(v, next), (**m).clone()),
        o => o.clone(),
    };
    Spec::tap(id, inner)
}

struct Ctx<'a, T: Scalar> {
    taps: &'a [TapLog<T>],
    xs: &'a [f64],
    whole: &'a Spec,
}

/// returns the number of leading steps for which this node's outputs are governed by the property
fn analyze<T: Scalar>(s: &Spec, next: &mut usize, cx: &Ctx<T>, out: &mut TrialOut) -> usize {
    let id = *next;
    *next += 1;
    let len = cx.xs.len();
    // children first: how long were this node's inputs in domain?
    let mut valid = len;
    let mut need_pos = false;
    match s {
        Spec::Un(k, i) => {
            let cid = *next;
            let cv = analyze(i, next, cx, out);
            need_pos = catalogue::needs_positive(k);
            valid = valid.min(cv).min(domain_until(&cx.taps[cid], need_pos, false));
        }
        Spec::Bin(k, a, b) => {
            let aid = *next;
            let av = analyze(a, next, cx, out);
            let bid = *next;
            let bv = analyze(b, next, cx, out);
            valid = valid.min(av).min(bv).min(domain_until(&cx.taps[aid], false, false)).min(domain_until(
                &cx.taps[bid],
                false,
                *k == BinK::Divide,
            ));
        }
        Spec::Ma(_, _, v, _) => {
            let cid = *next;
            let cv = analyze(v, next, cx, out);
            valid = valid.min(cv).min(domain_until(&cx.taps[cid], false, false));
        }
        _ => {}
    }
    let _ = need_pos;
    let log = cx.taps[id].borrow();
    let name = s.top();
    let cell = format!("node/{}", name);
    let mut ready = false;
    for i in 0..valid.min(log.len()) {
        let (_arg, l) = log[i];
        out.cell(&cell, 1);
        match l {
            Some(v) => {
                if !ready {
                    ready = true;
                    out.count("none_to_some_transitions", 1);
                }
                if !v.is_finite() {
                    out.violation(
                        &name,
                        "finite",
                        "any",
                        format!(
                            "{} at {} ({}): node {} returned the non-finite value {} at step {} (all of its inputs so far were finite and in domain)\n{}",
                            cx.whole.show(),
                            T::NAME,
                            Profile::current().name(),
                            s.show(),
                            v.show(),
                            i,
                            show_inputs(cx.xs, i, 40)
                        ),
                    );
                    return i;
                }
            }
            None => {
                if ready {
                    out.violation(
                        &name,
                        "no-relapse",
                        "any",
                        format!(
                            "{} at {}: node {} returned None at step {} after having returned a value\n{}",
                            cx.whole.show(),
                            T::NAME,
                            s.show(),
                            i,
                            show_inputs(cx.xs, i, 40)
                        ),
                    );
                    return i;
                }
            }
        }
    }
    valid
}

/// first step at which the child's output leaves the parent's input domain
fn domain_until<T: Scalar>(log: &TapLog<T>, need_pos: bool, need_nonzero: bool) -> usize {
    let log = log.borrow();
    for (i, (_, l)) in log.iter().enumerate() {
        if let Some(v) = l {
            let f = v.f();
            if !v.is_finite() || f.abs() > BIG || (f != 0.0 && f.abs() < TINY) || (need_pos && f <= 0.0) || (need_nonzero && f == 0.0) {
                return i;
            }
        }
    }
    log.len()
}

fn run_tree<T: Scalar>(spec: &Spec, xs: &[f64], out: &mut TrialOut) {
    out.key(mix(hash_str(&spec.show()), mix(gen::hash_f64s(xs), hash_str(T::NAME))));
    let mut n = 0;
    let tspec = tapped(spec, &mut n);
    let mut env = Env::<T>::new();
    let built = guarded(|| build(&tspec, &mut env));
    let Ok(mut v) = built else {
        out.count("constructor_rejections", 1);
        return;
    };
    // a panic of the code under test is C15's business: the trial ends there, the steps observed
    // so far are still analysed
    let mut fed = 0;
    for x in xs {
        let r = guarded(|| {
            v.update(T::of(*x));
            v.last()
        });
        match r {
            Ok(_) => fed += 1,
            Err(m) => {
                if m.starts_with("XQ-BLOWN") {
                    std::panic::resume_unwind(Box::new(m));
                }
                out.count("trials_ended_by_panic_of_code_under_test(C15)", 1);
                break;
            }
        }
    }
    let cx = Ctx { taps: &env.taps, xs: &xs[..fed], whole: spec };
    let mut next = 0;
    analyze(spec, &mut next, &cx, out);
}

/// documented first-output step, counted in *delivered* values: the view fed directly
/// (`delay` = 0) or sitting over an inner view (a Script) that delivers nothing for its first
/// `delay` updates and the values `xs` afterwards, while the raw inputs are unrelated
fn warmup_check<T: Scalar>(k: Kind, xs: &[f64], delay: usize, out: &mut TrialOut) {
    let Some((lo, hi)) = catalogue::warmup(&k) else {
        return;
    };
    let spec = if delay == 0 { Spec::leaf(k) } else { Spec::un(k, Spec::Script(0)) };
    let mut env = Env::<T>::new();
    if delay > 0 {
        env.add_script((0..delay).map(|_| None).chain(xs.iter().map(|x| Some(T::of(*x)))).collect());
        out.count("warm-up_checks_over_a_late_inner_view", 1);
    }
    let Ok(mut v) = guarded(|| build(&spec, &mut env)) else {
        return;
    };
    let cell = format!("warmup/{}", k.name());
    let mut first: Option<usize> = if v.last().is_some() { Some(0) } else { None };
    for i in 0..delay {
        // nothing delivered yet
        if guarded(|| v.update(T::of(0.25 + i as f64))).is_err() {
            return;
        }
        if first.is_none() && v.last().is_some() {
            first = Some(0);
        }
    }
    for (i, x) in xs.iter().enumerate() {
        if first.is_some() {
            break;
        }
        // (over a Script the raw input is not what is delivered)
        let raw = if delay == 0 { *x } else { 1000.5 + i as f64 };
        if guarded(|| v.update(T::of(raw))).is_err() {
            return;
        }
        if v.last().is_some() {
            first = Some(i + 1);
        }
    }
    if xs.len() < hi {
        // stream shorter than the warm-up: must not be ready earlier than documented
        out.cell(&cell, 1);
        if let Some(f) = first {
            if f < lo {
                out.violation(k.name(), "warm-up", "any", format!("{} at {}: first output after {} delivered values, documented: not before {}\n{}", spec.show(), T::NAME, f, lo, show_inputs(xs, f.saturating_sub(1), 40)));
            }
        }
        return;
    }
    out.cell(&cell, 1);
    match first {
        Some(f) if f >= lo && f <= hi => {}
        other => out.violation(
            k.name(),
            "warm-up",
            "any",
            format!(
                "{} at {}: first output after {:?} delivered values, documented: between {} and {}\n{}",
                spec.show(),
                T::NAME,
                other,
                lo,
                hi,
                show_inputs(xs, hi.min(xs.len()).saturating_sub(1), 40)
            ),
        ),
    }
}

/// a wrapper over a Script that answers None for a prefix (or for ever) keeps its construction-time answer
fn delivered_nothing<T: Scalar>(spec_over_script: &Spec, name: &str, none_for: usize, xs: &[f64], out: &mut TrialOut) {
    let mut env = Env::<T>::new();
    // the Script answers None for `none_for` steps, then 1.5, 2.5, ...
    let outs: Vec<Option<T>> = (0..xs.len()).map(|i| if i < none_for { None } else { Some(T::of(1.5 + (i - none_for) as f64)) }).collect();
    env.add_script(outs.clone());
    env.add_script(outs);
    let Ok(mut v) = guarded(|| build(spec_over_script, &mut env)) else {
        return;
    };
    let at_construction = v.last();
    let cell = format!("delivered-nothing/{}", name);
    for (i, x) in xs.iter().enumerate().take(none_for) {
        if guarded(|| v.update(T::of(*x))).is_err() {
            out.count("trials_ended_by_panic_of_code_under_test(C15)", 1);
            return;
        }
        let now = v.last();
        out.cell(&cell, 1);
        if !same_opt(now, at_construction) {
            out.violation(
                name,
                "delivered-nothing",
                "any",
                format!(
                    "{} at {}: the inner view has delivered nothing for {} updates, yet last() changed from {} (after construction) to {} at step {}\n{}",
                    spec_over_script.show(),
                    T::NAME,
                    i + 1,
                    show_opt(at_construction),
                    show_opt(now),
                    i,
                    show_inputs(xs, i, 12)
                ),
            );
            return;
        }
    }
}

fn ns(cfg: &Cfg) -> Vec<usize> {
    match cfg.tier {
        Tier::Quick => vec![1, 2, 3, 4, 5, 8, 9, 16, 33],
        Tier::Thorough => (1..=40).chain([64, 100]).collect(),
    }
}

#[derive(Clone, Copy)]
enum Sect {
    Singles,
    Warm,
    Nothing,
    Ma,
    Chains,
    Long,
}
fn sections(cfg: &Cfg) -> Vec<(Sect, u64)> {
    let nn = ns(cfg).len() as u64;
    let u = all_unary(3).len() as u64;
    let q = cfg.tier == Tier::Quick;
    vec![
        (Sect::Singles, nn * u * if q { 5 } else { ALL_CLASSES.len() as u64 }),
        (Sect::Warm, nn * u * if q { 2 } else { 6 }),
        (Sect::Nothing, (u + 6) * if q { 4 } else { 40 }),
        (Sect::Ma, nn * 8 * if q { 2 } else { 12 }),
        (Sect::Chains, if q { 2500 } else { 80_000 }),
        (Sect::Long, u + 8),
    ]
}

fn dispatch<T: Scalar>(cfg: &Cfg, sect: Sect, j: u64, rng: &mut Rng, out: &mut TrialOut) {
    let nlist = ns(cfg);
    let nn = nlist.len() as u64;
    let u = all_unary(3).len() as u64;
    let degenerate = [Class::Const, Class::Zero, Class::ZeroSum, Class::VolatileThenFlat, Class::SmallInt, Class::Blocks, Class::Step, Class::LinearExact];
    let stream = |class: Class, n: usize, len: usize, pos: bool, rng: &mut Rng| -> Vec<f64> {
        let xs = gen::gen(class, n, len, rng);
        if pos {
            gen::positive(&xs)
        } else {
            xs
        }
    };
    let base_len = if T::EXACT { 90 } else { 300 };
    match sect {
        Sect::Singles => {
            let n = nlist[(j % nn) as usize];
            let k = catalogue::bump_n(all_unary(n)[((j / nn) % u) as usize], n);
            let r = j / (nn * u);
            let class = if r % 2 == 0 { degenerate[((r / 2 + j) % degenerate.len() as u64) as usize] } else { *rng.pick(ALL_CLASSES) };
            let xs = stream(class, n, base_len + 4 * n, catalogue::needs_positive(&k), rng);
            if out.trial % 499 == 0 {
                out.sample(format!("{} at {} on {:?}, {} updates: readiness automaton on every node", Spec::leaf(k).show(), T::NAME, class, xs.len()));
            }
            run_tree::<T>(&Spec::leaf(k), &xs, out);
        }
        Sect::Warm => {
            let n = nlist[(j % nn) as usize];
            let k = catalogue::bump_n(all_unary(n)[((j / nn) % u) as usize], n);
            let class = *rng.pick(&[Class::Const, Class::Zero, Class::Walk, Class::SmallInt, Class::Uniform]);
            let len = if rng.chance(1, 4) { rng.usize(0, n) } else { 3 * n + 8 };
            let xs = stream(class, n, len, catalogue::needs_positive(&k), rng);
            // half of the checks put the view over an inner view that starts delivering late
            let delay = if rng.coin() { rng.usize(1, 2 * n + 3) } else { 0 };
            warmup_check::<T>(k, &xs, delay, out);
        }
        Sect::Nothing => {
            let n = rng.usize(1, 9);
            let all = all_unary(n);
            let i = (j % (u + 6)) as usize;
            let none_for = rng.usize(1, 40);
            let len = none_for + rng.usize(0, 10);
            let xs = stream(Class::Uniform, n, len, true, rng);
            if i < all.len() {
                let k = catalogue::bump_n(all[i], n);
                delivered_nothing::<T>(&Spec::un(k, Spec::Script(0)), k.name(), none_for, &xs, out);
            } else {
                let e = i - all.len();
                let (spec, name) = match e {
                    0..=3 => (Spec::bin(BINS[e], Spec::Script(0), Spec::Script(1)), format!("{:?}", BINS[e])),
                    4 => (Spec::ma(MaK::Pfe, n.max(3), Spec::Script(0), Spec::leaf(Kind::Ema(2))), "PolarizedFractalEfficiency".to_string()),
                    _ => (Spec::ma(MaK::Eft, n.max(2), Spec::Script(0), Spec::leaf(Kind::Ema(2))), "EhlersFisherTransform".to_string()),
                };
                delivered_nothing::<T>(&spec, &name, none_for, &xs, out);
            }
        }
        Sect::Ma => {
            let n = nlist[(j % nn) as usize].max(2);
            let mk = if (j / nn) % 2 == 0 { MaK::Pfe } else { MaK::Eft };
            let n = n.max(catalogue::min_n_ma(mk));
            let ma = if mk == MaK::Eft && rng.chance(1, 3) { rng.pick(&catalogue::overshooting_ma_specs(rng.clone().usize(2, 12))).clone() } else { catalogue::ma_specs(rng.usize(1, 6))[((j / (2 * nn)) % 4) as usize].clone() };
            let class = *rng.pick(&degenerate);
            let xs = stream(class, n, base_len + 4 * n, false, rng);
            run_tree::<T>(&Spec::ma(mk, n, Spec::Echo, ma), &xs, out);
        }
        Sect::Chains => {
            let spec = match j % 4 {
                0 | 1 => Spec::un(catalogue::random_unary(rng, 1, 12), Spec::leaf(catalogue::random_unary(rng, 1, 12))),
                2 => Spec::un(
                    catalogue::random_unary(rng, 1, 9),
                    Spec::un(catalogue::random_unary(rng, 1, 9), Spec::leaf(catalogue::random_unary(rng, 1, 9))),
                ),
                _ => Spec::bin(BINS[((j / 4) % 4) as usize], Spec::leaf(catalogue::random_unary(rng, 1, 9)), Spec::leaf(catalogue::random_unary(rng, 1, 9))),
            };
            let class = if rng.coin() { *rng.pick(&degenerate) } else { *rng.pick(ALL_CLASSES) };
            let n = super::c17::spec_n(&spec);
            let xs = stream(class, n, base_len, catalogue::spec_needs_positive(&spec), rng);
            run_tree::<T>(&spec, &xs, out);
        }
        Sect::Long => {
            // "for ever": long runs, no relapse, no non-finite value
            // longer than 2^16 even in the quick tier: a step counter narrowed to 16 bits wraps there
            let len = if T::EXACT { 150 } else { cfg.tier.pick(70_000, 1_000_000) };
            let n = *rng.pick(&[2usize, 3, 5, 9, 20]);
            let all = all_unary(n);
            let spec = if (j as usize) < all.len() {
                Spec::leaf(catalogue::bump_n(all[j as usize], n))
            } else {
                let e = j as usize - all.len();
                let mk = if e % 2 == 0 { MaK::Pfe } else { MaK::Eft };
                Spec::ma(mk, n.max(3), Spec::Echo, catalogue::ma_specs(3)[(e / 2) % 4].clone())
            };
            let class = *rng.pick(&[Class::Blocks, Class::Walk, Class::Uniform, Class::VolatileThenFlat, Class::SmallInt]);
            let xs = stream(class, n, len, catalogue::spec_needs_positive(&spec), rng);
            out.maxi("longest_stream", xs.len() as f64);
            run_tree::<T>(&spec, &xs, out);
        }
    }
}

impl Monitor for C08 {
    fn id(&self) -> &'static str {
        "C08"
    }
    fn dev_pass(&self) -> bool {
        true
    }
    fn plan(&self, cfg: &Cfg) -> u64 {
        sections(cfg).iter().map(|s| s.1).sum()
    }
    fn trial(&self, cfg: &Cfg, idx: u64, out: &mut TrialOut) {
        let mut j = idx;
        let mut sect = Sect::Singles;
        for (s, n) in sections(cfg) {
            if j < n {
                sect = s;
                break;
            }
            j -= n;
        }
        let mut rng = Rng::for_trial(cfg.seed, "C08", idx);
        // the dev-profile pass runs f64 only (its point is the finiteness assertions)
        if cfg.profile == Profile::Dev {
            if matches!(sect, Sect::Long) && idx % 3 != 0 {
                return;
            }
            return dispatch::<f64>(cfg, sect, j, &mut rng, out);
        }
        match idx % 8 {
            5 => dispatch::<f32>(cfg, sect, j, &mut rng, out),
            6 | 7 => dispatch::<Xq>(cfg, sect, j, &mut rng, out),
            _ => dispatch::<f64>(cfg, sect, j, &mut rng, out),
        }
    }
    fn required_cells(&self, _cfg: &Cfg) -> Vec<String> {
        let mut names: Vec<String> = all_unary(3).iter().map(|k| format!("node/{}", k.name())).collect();
        for k in all_unary(3) {
            if catalogue::warmup(&k).is_some() {
                names.push(format!("warmup/{}", k.name()));
            }
            names.push(format!("delivered-nothing/{}", k.name()));
        }
        names.sort();
        names.dedup();
        names.push("node/PolarizedFractalEfficiency".into());
        names.push("node/EhlersFisherTransform".into());
        names.push("node/Echo".into());
        for b in BINS {
            names.push(format!("node/{:?}", b));
            names.push(format!("delivered-nothing/{:?}", b));
        }
        names
    }
    fn rule(&self) -> String {
        "trial = a view (every kind x N grid x degenerate and benign input classes), PFE/EFT with each MA, or a random 2-3 level chain / combinator with a Tap on every node; per node: once Some never None again, every Some finite, as long as the node's own inputs (its child's outputs) stayed finite, in domain and of moderate magnitude (zero or within 2^-40..2^40); single views: step of first Some against the documented warm-up table (also with streams shorter than the warm-up); wrappers over a Script that answers None for 1..40 updates must keep their construction-time answer; long runs of 7e4 (quick) / 1e6 (thorough) updates. f64 (release and dev), f32, exact rational. distinct = distinct (tree, input hash, scalar)".into()
    }
    fn assumptions(&self) -> Vec<String> {
        vec![
            "'for ever' restated as no relapse / no non-finite value within the explored run lengths".into(),
            "a panic of the code under test ends the trial (reported by C15, not here)".into(),
        ]
    }
    fn design_ref(&self) -> &'static str {
        "DESIGN.md 3/C08"
    }
}
