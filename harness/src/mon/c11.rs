//! C11 — Ehlers-style indicators follow their defining difference equations.
//!
//! Reference model: oracle::ehlers, a batch re-evaluation from the complete input history written
//! from the statement's formulas with closed-form coefficients.  Compared with the real code after
//! every update, at f64 on long streams and at the exact scalar on short ones (there the zero tests
//! of the hold branches are exact events), tolerance 2e-5 of the output's natural scale for
//! SuperSmoother and RoofingFilter (the tightest that cannot false-alarm on their constants'
//! spelling, 4.4422 vs 1.414 pi: <= 4e-6 of scale) and 1e-9 for the other seven views.

use super::{hash_str, mix, show_inputs};
use crate::dynview::{build_plain, Kind, MaK, Spec};
use crate::gen::{self, Class, Rng};
use crate::oracle::ehlers::{self as oe, RefMa};
use crate::report::{guarded, Cfg, Monitor, Tier, TrialOut};
use crate::scalar::{show_opt, Scalar};
use crate::xq::Xq;
use sliding_features::View;

pub struct C11;

pub const NAMES: [&str; 9] = [
    "SuperSmoother",
    "RoofingFilter",
    "LaguerreFilter",
    "LaguerreRSI",
    "CyberCycle",
    "TrendFlex",
    "ReFlex",
    "EhlersFisherTransform",
    "PolarizedFractalEfficiency",
];
const CLASSES: [Class; 10] = [
    Class::Walk,
    Class::Uniform,
    Class::Sine,
    Class::Alternating,
    Class::Step,
    Class::Spike,
    Class::Blocks,
    Class::VolatileThenFlat,
    Class::Const,
    Class::SmallInt,
];
/// (511/512: a smoothing constant within 0.2 % of one, where a direct-form rewrite of the ladder
/// loses its accuracy)
const GAMMAS: [f64; 7] = [0.0, 0.25, 0.5, 0.75, 0.8125, 0.9375, 0.998046875];

#[derive(Clone, Debug)]
pub struct Case {
    pub vi: usize,
    pub spec: Spec,
    pub n: usize,
    pub m: usize,
    pub gamma: f64,
    pub ma: RefMa,
}

pub fn min_n(vi: usize) -> usize {
    match vi {
        1 => 2,
        3 => 2,
        6 => 2,
        7 => 2,
        8 => 3,
        _ => 1,
    }
}

pub fn make_case(vi: usize, n: usize, rng: &mut Rng) -> Case {
    let n = n.max(min_n(vi));
    let mut c = Case { vi, spec: Spec::Echo, n, m: 1, gamma: 0.0, ma: RefMa::Echo };
    let ma_pick = |rng: &mut Rng| -> (RefMa, Spec) {
        let k = rng.usize(1, 6);
        match rng.below(3) {
            0 => (RefMa::Ema(k), Spec::leaf(Kind::Ema(k))),
            1 => (RefMa::Sma(k), Spec::leaf(Kind::Sma(k))),
            _ => (RefMa::Echo, Spec::Echo),
        }
    };
    match vi {
        0 => c.spec = Spec::leaf(Kind::SuperSmoother(n)),
        1 => {
            c.m = *rng.pick(&[1usize, 2, 3, 5, 10, 20]);
            c.spec = Spec::leaf(Kind::Roofing(n, c.m));
        }
        2 => {
            c.gamma = *rng.pick(&GAMMAS);
            c.spec = Spec::leaf(Kind::LagFilter(c.gamma));
        }
        3 => c.spec = Spec::leaf(Kind::LagRsi(n)),
        4 => c.spec = Spec::leaf(Kind::Cyber(n)),
        5 => c.spec = Spec::leaf(Kind::TrendFlex(n)),
        6 => c.spec = Spec::leaf(Kind::ReFlex(n)),
        7 => {
            let (r, s) = ma_pick(rng);
            c.ma = r;
            c.spec = Spec::ma(MaK::Eft, n, Spec::Echo, s);
        }
        _ => {
            let (r, s) = ma_pick(rng);
            c.ma = r;
            c.spec = Spec::ma(MaK::Pfe, n, Spec::Echo, s);
        }
    }
    c
}

/// reference outputs and, where the view is a ratio, the reference denominator (conditioning)
pub fn reference<T: Scalar>(c: &Case, xs: &[T]) -> Vec<(Option<T>, Option<T>)> {
    let plain = |v: Vec<Option<T>>| v.into_iter().map(|o| (o, None)).collect::<Vec<_>>();
    match c.vi {
        0 => plain(oe::super_smoother(xs, c.n)),
        1 => plain(oe::roofing(xs, c.n, c.m)),
        2 => plain(oe::laguerre_filter(xs, T::of(c.gamma))),
        3 => oe::laguerre_rsi(xs, c.n).into_iter().map(|(o, d)| (o, Some(d))).collect(),
        4 => plain(oe::cyber_cycle(xs, c.n)),
        5 => oe::trend_flex(xs, c.n).into_iter().map(|(o, d)| (o, Some(d))).collect(),
        6 => oe::re_flex(xs, c.n).into_iter().map(|(o, d)| (o, Some(d))).collect(),
        7 => plain(oe::fisher(xs, c.n, c.ma)),
        _ => plain(oe::pfe(xs, c.n, c.ma)),
    }
}

fn run<T: Scalar>(c: &Case, xs: &[f64], out: &mut TrialOut) {
    let name = NAMES[c.vi];
    let cell = format!("{}/{}", name, T::NAME);
    let xt: Vec<T> = xs.iter().map(|x| T::of(*x)).collect();
    let refs = reference(c, &xt);
    let Ok(mut v) = guarded(|| build_plain::<T>(&c.spec)) else {
        out.count("constructor_rejections", 1);
        return;
    };
    let mut big = 1e-300f64;
    let mut suspended = false;
    // PFE over a Sma: the smoother's running sum (add the new, subtract the departed term) keeps
    // eps x the largest raw efficiency that ever passed through it; that is rounding of the supplied
    // moving average, not a deviation of PFE from its formula
    let raw_eff: Vec<f64> = if !T::EXACT && c.vi == 8 && matches!(c.ma, RefMa::Sma(_)) { oe::pfe(xs, c.n, RefMa::Echo).iter().map(|o| o.map(|r| r.abs()).unwrap_or(0.0)).collect() } else { vec![] };
    let mut raw_max = 0f64;
    for t in 0..xs.len() {
        big = big.max(xs[t].abs());
        let r = guarded(|| {
            v.update(xt[t]);
            v.last()
        });
        let got = match r {
            Ok(g) => g,
            Err(m) => {
                if m.starts_with("XQ-BLOWN") {
                    std::panic::resume_unwind(Box::new(m));
                }
                out.count("trials_ended_by_panic_of_code_under_test(C15)", 1);
                return;
            }
        };
        let (e, den) = refs[t];
        // conditioning of ratio outputs (only an issue in floating point)
        if !T::EXACT {
            if let Some(d) = den {
                let thr = match c.vi {
                    3 => 1e-8 * big,      // CU + CD
                    _ => 1e-20 * big * big, // leaky mean square
                };
                if !(d.f() >= thr) {
                    suspended = true;
                    out.count("f64_steps_skipped_reference_denominator_in_rounding_noise", 1);
                    continue;
                }
                suspended = false;
            }
            if suspended {
                continue;
            }
        }
        let scale = match c.vi {
            0 | 1 | 2 | 4 => big,
            _ => e.map(|x| x.f().abs()).unwrap_or(0.0).max(1.0),
        };
        // SuperSmoother and RoofingFilter spell the cosine's argument 4.4422 / N where the statement
        // has 1.414 pi / N = 4.44221201218... / N: up to 4e-6 of scale on the
        // unchanged tree; every other view follows the statement's spelling and agrees with the
        // batch re-evaluation to 5e-14
        if let Some(r) = raw_eff.get(t) {
            raw_max = raw_max.max(*r);
        }
        let tol = if c.vi <= 1 { 2e-5 } else { 1e-9 } * scale + 64.0 * f64::EPSILON * raw_max;
        out.cell(&cell, 1);
        let ok = match (got, e) {
            (None, None) => true,
            (Some(g), Some(x)) => (g.f() - x.f()).abs() <= tol,
            _ => false,
        };
        if let (Some(g), Some(x)) = (got, e) {
            out.maxi(&format!("max_rel_deviation/{}", name), (g.f() - x.f()).abs() / scale);
        }
        if !ok {
            out.violation(
                name,
                "difference-equation",
                "any",
                format!(
                    "{} at {}: step {} (value #{}): got {}, batch re-evaluation of the defining equations gives {} (tolerance {:e}, scale {:e})\n{}",
                    c.spec.show(),
                    T::NAME,
                    t,
                    t + 1,
                    show_opt(got),
                    show_opt(e),
                    tol,
                    scale,
                    show_inputs(xs, t, 30)
                ),
            );
            return;
        }
    }
}

fn ns(cfg: &Cfg) -> Vec<usize> {
    match cfg.tier {
        Tier::Quick => vec![1, 2, 3, 4, 5, 6, 7, 8, 9, 12, 16, 25, 48, 200],
        Tier::Thorough => (1..=64).chain([200, 1000]).collect(),
    }
}

impl Monitor for C11 {
    fn id(&self) -> &'static str {
        "C11"
    }
    fn plan(&self, cfg: &Cfg) -> u64 {
        (9 * ns(cfg).len() * CLASSES.len()) as u64 * cfg.tier.pick(2, 12)
    }
    fn trial(&self, cfg: &Cfg, idx: u64, out: &mut TrialOut) {
        let nl = ns(cfg);
        let mut rng = Rng::for_trial(cfg.seed, "C11", idx);
        let vi = (idx % 9) as usize;
        let n = nl[((idx / 9) % nl.len() as u64) as usize];
        let n = super::jitter_n(cfg, n, 1, 64, &mut rng);
        let class = CLASSES[((idx / (9 * nl.len() as u64)) % CLASSES.len() as u64) as usize];
        let rep = idx / (9 * nl.len() * CLASSES.len()) as u64;
        // every second repetition of small N runs at the exact scalar on a short stream
        let exact = rep % 2 == 1 && n <= 16;
        let c = make_case(vi, n, &mut rng);
        let len = if exact { 40 + 3 * c.n.min(16) } else { (6 * c.n + 100).max(cfg.tier.pick(500, 20_000)).min(cfg.tier.pick(2_000, 20_000)) };
        let mut xs = gen::gen(class, c.n, len, &mut rng);
        // one f64 trial in twelve hops between two or three adjacent floats around a level (a window
        // whose range is one ulp is not flat); for EFT, which normalises by the range, another one in
        // twelve runs in units of 2^-1064 (every value and every range a subnormal number)
        if !exact && rng.chance(1, 12) {
            let lvl = *rng.pick(&[1.0f64, 1000.5, 16777215.0, 0.3]);
            let hops = rng.usize(2, 3) as u64;
            for x in xs.iter_mut() {
                *x = f64::from_bits(lvl.to_bits() + rng.below(hops));
            }
            out.count("f64_trials_hopping_between_adjacent_floats", 1);
        } else if !exact && vi == 7 && rng.chance(1, 12) {
            for x in xs.iter_mut() {
                *x *= 2f64.powi(-532) * 2f64.powi(-532);
            }
            out.count("f64_trials_in_subnormal_units(EFT)", 1);
        }
        // one f64 trial in four in units of 2^10 or 2^20: PFE (whose formula contains the absolute
        // terms +1 and N^2) and any shortcut taken "for large moves" see another regime there
        if !exact && rng.chance(1, 4) {
            let s = 2f64.powi(*rng.pick(&[10, 20]));
            for x in xs.iter_mut() {
                *x *= s;
            }
            out.count("f64_trials_in_large_units", 1);
        }
        out.key(mix(hash_str(&format!("{}{}", c.spec.show(), exact)), gen::hash_f64s(&xs)));
        if idx % 211 == 0 {
            out.sample(format!("{} at {} on {:?}: {} values; first {:?}", c.spec.show(), if exact { "Xq" } else { "f64" }, class, xs.len(), &xs[..xs.len().min(8)]));
        }
        if exact {
            run::<Xq>(&c, &xs, out)
        } else {
            run::<f64>(&c, &xs, out)
        }
    }
    fn required_cells(&self, _cfg: &Cfg) -> Vec<String> {
        let mut v = vec![];
        for n in NAMES {
            v.push(format!("{}/f64", n));
            v.push(format!("{}/Xq", n));
        }
        v
    }
    fn rule(&self) -> String {
        "trial = (one of the nine views with its secondary parameters: gamma grid, smoother length, MA in {Ema(k), Sma(k), Echo}; N from the view's minimum to 64 plus 200 and 1000; input class incl. resonant sines and alternations, steps, spikes, flat stretches; scalar); after every update last() is compared with a batch re-evaluation of the difference equations from the complete history (coefficients from the statement's closed forms), tolerance 2e-5 (SuperSmoother, RoofingFilter: spelled constants) resp. 1e-9 (the others) of the natural scale; ratio outputs are compared in f64 only where the reference denominator is above rounding noise (counted), and at the exact scalar always. distinct = distinct (view+parameters, scalar, input hash)".into()
    }
    fn assumptions(&self) -> Vec<String> {
        vec![
            "conventions named by the statement: N filter values incl. the current one, zero or first-value initial state, lags outside the window dropped, Roofing's smoother fed from value N+2, LaguerreRSI's ladder starts with the third value, EFT emits 0 on a flat window and nothing new while its MA is not ready".into(),
            "1.414 pi and 4.4422 are the same constant (effect <= 3e-6 of scale)".into(),
        ]
    }
    fn design_ref(&self) -> &'static str {
        "DESIGN.md 3/C11"
    }
}
