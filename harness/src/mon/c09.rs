//! C09 — recursive filters are stable and have fading memory for every window length.
//!
//! Bounded restatement.  (a) |x| <= 1 in, |out| <= B(view, N) out, B from the reference model
//! (1.05 x the l1 norm of the reference impulse response for the linear filters; 5 for Trend/ReFlex;
//! [0,1] for LaguerreRSI; ln 199 for the Fisher transform), independent of the run length: runs of
//! L, 4L and 16L updates must all respect the same B.  (b) two instances fed different bounded
//! prefixes and then a common persistently exciting tail must agree to 1e-6 of scale at every step
//! >= S after the merge, S = window + 3 ceil(ln 1e-12 / ln rho), rho the reference pole radius.

use super::c10::{pole_radius, settle};
use super::c11::{make_case, reference, Case};
use super::{hash_str, mix};
use crate::dynview::{build_plain, Kind, MaK, Spec};
use crate::gen::Rng;
use crate::oracle::ehlers as oe;
use crate::report::{guarded, Cfg, Monitor, Tier, TrialOut};
use sliding_features::View;

pub struct C09;

pub const NAMES: [&str; 9] = ["Ema", "LaguerreFilter", "SuperSmoother", "RoofingFilter", "CyberCycle", "TrendFlex", "ReFlex", "LaguerreRSI", "EhlersFisherTransform"];

#[derive(Clone, Debug)]
struct V {
    name: &'static str,
    spec: Spec,
    kind: Option<Kind>,
    /// C11 case for the ratio views (reference denominators)
    case: Option<Case>,
    n: usize,
}

fn view(vi: usize, n: usize, rng: &mut Rng) -> V {
    let (spec, kind, case) = match vi {
        0 => {
            let k = if rng.chance(2, 3) { Kind::Ema(n) } else { Kind::EmaAlpha(n, *rng.pick(&[0.5, 1.0])) };
            (Spec::leaf(k), Some(k), None)
        }
        1 => {
            let k = Kind::LagFilter(*rng.pick(&[0.0, 0.25, 0.5, 0.75, 0.8125, 0.9375, 0.998046875]));
            (Spec::leaf(k), Some(k), None)
        }
        2 => (Spec::leaf(Kind::SuperSmoother(n)), Some(Kind::SuperSmoother(n)), None),
        3 => {
            let k = Kind::Roofing(n.max(2), *rng.pick(&[1usize, 2, 5, 10]));
            (Spec::leaf(k), Some(k), None)
        }
        4 => (Spec::leaf(Kind::Cyber(n.max(3))), Some(Kind::Cyber(n.max(3))), None),
        5 => {
            let c = make_case(5, n, rng);
            (c.spec.clone(), Some(Kind::TrendFlex(c.n)), Some(c))
        }
        6 => {
            let c = make_case(6, n, rng);
            (c.spec.clone(), Some(Kind::ReFlex(c.n)), Some(c))
        }
        7 => {
            let c = make_case(3, n, rng);
            (c.spec.clone(), Some(Kind::LagRsi(c.n)), Some(c))
        }
        _ => {
            let c = make_case(7, n, rng);
            (c.spec.clone(), None, Some(c))
        }
    };
    let n_eff = super::c17::spec_n(&spec);
    V { name: NAMES[vi], spec, kind, case, n: n_eff }
}

/// reference settle length of a view
fn settle_of(v: &V) -> usize {
    match (&v.kind, &v.case) {
        (Some(k), _) => settle(k),
        (None, Some(c)) => {
            // Fisher transform: window, then the MA's memory, then the 1/2 recursion
            let ma_rho = match c.ma {
                oe::RefMa::Ema(k) => 1.0 - 2.0 / (k as f64 + 1.0),
                _ => 0.0,
            };
            let ma_win = match c.ma {
                oe::RefMa::Sma(k) => k,
                _ => 1,
            };
            let rho: f64 = ma_rho.max(0.5);
            c.n + ma_win + 3 * ((1e-12f64).ln() / rho.ln()).ceil() as usize + 4
        }
        _ => 64,
    }
}

/// output bound for inputs bounded by `inb`; None when no a-priori bound is claimed
fn bound_of(v: &V, inb: f64) -> (f64, f64) {
    match v.name {
        "TrendFlex" | "ReFlex" => (-5.0 * (1.0 + 1e-9), 5.0 * (1.0 + 1e-9)),
        "LaguerreRSI" => (-1e-12, 1.0 + 1e-12),
        "EhlersFisherTransform" => {
            let b = 199f64.ln() * (1.0 + 1e-9);
            (-b, b)
        }
        _ => {
            let b = 1.05 * l1_norm(v) * inb;
            (-b, b)
        }
    }
}

/// A sound a-priori bound on |out| for |in| <= 1, from the structure of the reference model:
/// (largest forcing term) x (l1 norm of the recursion's impulse response, bounded by 1/(1-r)^2 for
/// a pole pair of radius r).  Loose on purpose: it must hold for a recursion that is started late
/// from zero state (CyberCycle, Roofing's smoother), where the truncated response is not bounded
/// by the l1 norm of the composite impulse response.
fn l1_norm(v: &V) -> f64 {
    gain_of(&v.kind.unwrap())
}
fn gain_of(k: &Kind) -> f64 {
    let th = |n: usize| 1.414 * std::f64::consts::PI / n as f64;
    let ss = |n: usize| {
        let a1 = (-th(n)).exp();
        let b1 = 2.0 * a1 * th(n).cos();
        let c1 = 1.0 - b1 + a1 * a1;
        c1.abs() / ((1.0 - a1) * (1.0 - a1))
    };
    match *k {
        Kind::Ema(_) | Kind::EmaAlpha(..) => 1.0,
        Kind::LagFilter(g) => {
            let f = (1.0 + g) / (1.0 - g);
            (1.0 + 2.0 * f + 2.0 * f * f + f * f * f) / 6.0
        }
        Kind::SuperSmoother(n) => ss(n),
        Kind::Roofing(n, m) => {
            let t = th(n);
            let alpha = (t.cos() + t.sin() - 1.0) / t.cos();
            let k0 = (1.0 - alpha / 2.0).powi(2);
            let r = (1.0 - alpha).abs();
            4.0 * k0 / ((1.0 - r) * (1.0 - r)) * ss(m)
        }
        Kind::Cyber(n) => {
            let alpha = 2.0 / (n as f64 + 1.0);
            4.0 * (1.0 - alpha / 2.0).powi(2) / (alpha * alpha)
        }
        _ => 1.0,
    }
}

#[derive(Clone, Copy, Debug)]
enum Wave {
    Noise,
    Square(usize),
    Impulse,
    Step,
    Alternating,
}

fn bounded_input(w: Wave, t: usize, st: &mut u64) -> f64 {
    match w {
        Wave::Noise => {
            *st = st.wrapping_mul(6364136223846793005).wrapping_add(1442695040888963407);
            (((*st >> 33) & 0xFFFF) as f64 - 32768.0) / 32768.0
        }
        Wave::Square(p) => {
            if (t / p.max(1)) % 2 == 0 {
                1.0
            } else {
                -1.0
            }
        }
        Wave::Impulse => {
            if t == 7 {
                1.0
            } else {
                0.0
            }
        }
        Wave::Step => {
            if t < 11 {
                -1.0
            } else {
                1.0
            }
        }
        Wave::Alternating => {
            if t % 2 == 0 {
                1.0
            } else {
                -1.0
            }
        }
    }
}

fn boundedness(v: &V, wave: Wave, l: usize, seed: u64, amp: f64, out: &mut TrialOut) {
    let cell = format!("{}/bounded", v.name);
    let (lo, hi) = bound_of(v, amp);
    let Ok(mut inst) = guarded(|| build_plain::<f64>(&v.spec)) else {
        out.count("constructor_rejections", 1);
        return;
    };
    let mut st = seed | 1;
    let marks = [l, 4 * l, 16 * l];
    let mut worst = 0f64;
    let mut worst_early = 0f64;
    for t in 0..16 * l {
        let x = amp * bounded_input(wave, t, &mut st);
        let r = guarded(|| {
            inst.update(x);
            inst.last()
        });
        let Ok(o) = r else {
            out.count("trials_ended_by_panic_of_code_under_test(C15)", 1);
            return;
        };
        if let Some(o) = o {
            if !(o.is_finite() && o >= lo && o <= hi) {
                out.cell(&cell, 1);
                out.violation(
                    v.name,
                    "bounded",
                    "any",
                    format!(
                        "{} at f64: input {:?} bounded by {:e} (seed {}), step {}: output {:e} outside the length-independent bound [{:e}, {:e}] derived from the reference model",
                        v.spec.show(),
                        wave,
                        amp,
                        seed,
                        t,
                        o,
                        lo,
                        hi
                    ),
                );
                return;
            }
            worst = worst.max(o.abs());
            if t < 4 * l {
                worst_early = worst_early.max(o.abs());
            } else if o.abs() > 2.5 * worst_early + 1e-9 {
                out.cell(&cell, 1);
                out.violation(
                    v.name,
                    "bound-independent-of-length",
                    "any",
                    format!(
                        "{} at f64: input {:?} bounded by 1 (seed {}), step {}: |output| {:e} exceeds 2.5 x the largest magnitude {:e} seen during the first {} updates: the output range grows with the stream length",
                        v.spec.show(),
                        wave,
                        seed,
                        t,
                        o.abs(),
                        worst_early,
                        4 * l
                    ),
                );
                return;
            }
        }
        if marks.contains(&(t + 1)) {
            out.cell(&cell, 1);
        }
    }
    out.maxi(&format!("max_abs_output_over_bound/{}", v.name), worst / hi.abs().max(1e-300));
    out.maxi("longest_stream", (16 * l) as f64);
}

fn fading(v: &V, seed: u64, out: &mut TrialOut, rng: &mut Rng) {
    let cell = format!("{}/fading", v.name);
    // a third of the trials gives one prefix a large magnitude (bounded all the same): whatever
    // it leaves behind must die out as well.  The settle length grows with the attenuation needed:
    // 1e-12 relative to the *head* instead of the tail
    let head: f64 = if rng.chance(1, 3) { *rng.pick(&[1048576.0, 1073741824.0, 8589934592.0]) } else { 1.0 };
    let s0 = settle_of(v);
    let s = v.n + (((s0 - v.n.min(s0)) as f64) * (1.0 + head.ln() / (1e12f64).ln())).ceil() as usize;
    if head > 1.0 {
        out.count("fading_trials_with_large_magnitude_prefix", 1);
    }
    let tail_len = s + s / 2 + 200;
    let (p1, p2) = (rng.usize(0, 450), rng.usize(1, 450));
    let (Ok(mut a), Ok(mut b)) = (guarded(|| build_plain::<f64>(&v.spec)), guarded(|| build_plain::<f64>(&v.spec))) else {
        return;
    };
    let mut s1 = seed | 1;
    let mut s2 = seed.wrapping_mul(31) | 1;
    let w1 = *rng.pick(&[Wave::Noise, Wave::Step, Wave::Square(3), Wave::Alternating]);
    let w2 = *rng.pick(&[Wave::Noise, Wave::Impulse, Wave::Square(7)]);
    let scale1 = *rng.pick(&[1.0, 0.25, 1.0]);
    let ok = guarded(|| {
        for t in 0..p1 {
            a.update(head * scale1 * bounded_input(w1, t, &mut s1));
        }
        for t in 0..p2 {
            b.update(-bounded_input(w2, t, &mut s2));
        }
    });
    if ok.is_err() {
        return;
    }
    // common persistently exciting tail
    let mut st = seed.wrapping_mul(0x9E37) | 1;
    // the tail stays inside half the range the prefixes used: an early extreme that is never
    // forgotten (an all-time instead of a window extremum) is then never overwritten by the tail
    // three kinds of tail: noise; sample-and-hold noise (every value repeated 1..4 times: a filter
    // that skips work "when nothing changed" must still let its transient die); noise, a long
    // constant stretch, noise again
    let tail_kind = rng.below(3);
    let mut tail: Vec<f64> = Vec::with_capacity(tail_len);
    let mut held = 0.0;
    let mut hold = 0usize;
    for t in 0..tail_len {
        let fresh = 0.5 * bounded_input(Wave::Noise, t, &mut st);
        let v = match tail_kind {
            0 => fresh,
            1 => {
                if hold == 0 {
                    held = fresh;
                    hold = 1 + (t * 7 + 3) % 4;
                }
                hold -= 1;
                held
            }
            _ => {
                if t > tail_len / 5 && t < tail_len * 4 / 5 {
                    0.25
                } else {
                    fresh
                }
            }
        };
        tail.push(v);
    }
    out.count(&format!("fading_tail_kind_{}", tail_kind), 1);
    // reference denominators of the ratio views on instance A's complete history are not needed:
    // after the merge both instances see the same tail; use the tail alone for conditioning
    let dens: Option<Vec<f64>> = v.case.as_ref().filter(|c| matches!(c.vi, 3 | 5 | 6)).map(|c| reference::<f64>(c, &tail).into_iter().map(|(_, d)| d.unwrap_or(1.0)).collect());
    for (t, x) in tail.iter().enumerate() {
        let r = guarded(|| {
            a.update(*x);
            b.update(*x);
            (a.last(), b.last())
        });
        let Ok((ra, rb)) = r else { return };
        if t < s {
            continue;
        }
        if let (Some(d), Some(c)) = (&dens, &v.case) {
            let thr = if c.vi == 3 { 1e-3 } else { 1e-6 };
            if d[t] < thr {
                out.count("fading_steps_skipped_small_reference_denominator", 1);
                continue;
            }
        }
        out.cell(&cell, 1);
        let ok = match (ra, rb) {
            (Some(x), Some(y)) => (x - y).abs() <= 1e-6,
            (None, None) => true,
            _ => false,
        };
        if let (Some(x), Some(y)) = (ra, rb) {
            out.maxi(&format!("max_difference_after_settle/{}", v.name), (x - y).abs());
        }
        if !ok {
            out.violation(
                v.name,
                "fading-memory",
                "any",
                format!(
                    "{} at f64: two instances fed different bounded prefixes ({} and {} values) and then the same noise tail (seed {}): {} steps after the merge (settle length S = {}, pole radius {:?}) outputs still differ: {:?} vs {:?}",
                    v.spec.show(),
                    p1,
                    p2,
                    seed,
                    t,
                    s,
                    v.kind.map(|k| pole_radius(&k)),
                    ra,
                    rb
                ),
            );
            return;
        }
    }
}

fn ns(cfg: &Cfg) -> Vec<usize> {
    match cfg.tier {
        Tier::Quick => vec![1, 2, 3, 4, 5, 6, 7, 8, 9, 16, 64],
        Tier::Thorough => (1..=64).chain([100, 1000]).collect(),
    }
}

impl Monitor for C09 {
    fn id(&self) -> &'static str {
        "C09"
    }
    fn plan(&self, cfg: &Cfg) -> u64 {
        (9 * ns(cfg).len()) as u64 * cfg.tier.pick(6, 40) + cfg.tier.pick(60, 4000)
    }
    fn trial(&self, cfg: &Cfg, idx: u64, out: &mut TrialOut) {
        let nl = ns(cfg);
        let mut rng = Rng::for_trial(cfg.seed, "C09", idx);
        let main = (9 * nl.len()) as u64 * cfg.tier.pick(6, 40);
        if idx >= main {
            // chain of two recursive views: bounded-input run, finite and below the composed bound
            let v1 = view(rng.usize(0, 4), rng.usize(2, 12), &mut rng);
            let v2 = view(rng.usize(0, 4), rng.usize(2, 12), &mut rng);
            let (Spec::Un(k2, _), Some(_)) = (&v2.spec, v1.kind) else { return };
            let spec = Spec::un(*k2, v1.spec.clone());
            let b = 1.05 * l1_norm(&v1) * l1_norm(&v2);
            out.key(mix(hash_str(&spec.show()), idx));
            let Ok(mut inst) = guarded(|| build_plain::<f64>(&spec)) else { return };
            let wave = *rng.pick(&[Wave::Noise, Wave::Square(rng.clone().usize(1, 40)), Wave::Alternating, Wave::Step]);
            let mut st = rng.next() | 1;
            let l = cfg.tier.pick(4_000, 100_000);
            for t in 0..l {
                let x = bounded_input(wave, t, &mut st);
                inst.update(x);
                if let Some(o) = inst.last() {
                    if !(o.is_finite() && o.abs() <= b) {
                        out.cell("chains/bounded", 1);
                        out.violation("chain", "bounded", "any", format!("{} at f64: input {:?} bounded by 1, step {}: output {:e} exceeds the composed reference bound {:e}", spec.show(), wave, t, o, b));
                        return;
                    }
                }
            }
            out.cell("chains/bounded", 1);
            return;
        }
        let vi = (idx % 9) as usize;
        let n = nl[((idx / 9) % nl.len() as u64) as usize];
        let rep = idx / (9 * nl.len() as u64);
        let v = view(vi, n, &mut rng);
        let seed = rng.next();
        out.key(mix(hash_str(&v.spec.show()), mix(rep, seed)));
        if rep % 2 == 1 {
            fading(&v, seed, out, &mut rng);
            return;
        }
        let period_max = (4 * v.n).max(2);
        let wave = match (rep / 2) % 5 {
            0 => Wave::Noise,
            1 => Wave::Square(rng.usize(1, period_max)),
            2 => Wave::Impulse,
            3 => Wave::Step,
            _ => {
                if rng.coin() {
                    Wave::Alternating
                } else {
                    // the smoother's own resonance region: half-periods around N/2 .. N
                    Wave::Square(rng.usize((v.n / 4).max(1), v.n.max(1)))
                }
            }
        };
        // the run length shrinks for the O(N) per update views at large N
        let l = (cfg.tier.pick(10_000usize, 60_000) / (1 + v.n / 64)).max(2_000);
        if idx % 61 == 0 {
            out.sample(format!("{}: input {:?} bounded by 1, runs of {} / {} / {} updates against the bound {:?}", v.spec.show(), wave, l, 4 * l, 16 * l, bound_of(&v, 1.0)));
        }
        // Ema is a convex combination of bounded values: for it the bound holds up to the edge of the
        // scalar's range (a third of its trials: inputs bounded by 0.75 x f64::MAX, where the difference
        // of two admissible values is no longer a finite number)
        let amp = if v.name == "Ema" && rng.chance(1, 3) { 0.75 * f64::MAX } else { 1.0 };
        if amp != 1.0 {
            out.count("bounded_trials_at_three_quarters_of_f64_max(Ema)", 1);
        }
        boundedness(&v, wave, l, seed, amp, out);
    }
    fn required_cells(&self, _cfg: &Cfg) -> Vec<String> {
        let mut v = vec![];
        for n in NAMES {
            v.push(format!("{}/bounded", n));
            v.push(format!("{}/fading", n));
        }
        v.push("chains/bounded".into());
        v
    }
    fn rule(&self) -> String {
        "trial = (one of the nine recursive views with parameter grid; N from the minimum, all of 1..9 always, to 64 (+100, 1000 in thorough); clause). bounded: input in [-1,1] (Ema: a third of the trials in [-0.75 MAX, 0.75 MAX]) from {LCG noise, square waves with half-period 1..4N incl. the resonance region, impulse, step, alternating}, every output of runs of L, 4L, 16L updates (L = 1e4 quick) finite and inside a bound computed from the reference model that does not depend on the run length. fading: two instances, different bounded prefixes of 0..450 values (a third of them 2^20..2^33 times larger than the tail, with the settle length extended accordingly), common noise tail; from S steps after the merge (S from the reference pole radius) outputs agree to 1e-6. Chains of two linear recursive views against the product of their reference bounds. distinct = distinct (view+parameters, clause, seed)".into()
    }
    fn assumptions(&self) -> Vec<String> {
        vec![
            "unbounded 'however long' restated as: same bound at L, 4L, 16L; no finite run decides the unbounded claim".into(),
            "ratio views: fading steps whose reference denominator on the tail is tiny are skipped (counted)".into(),
        ]
    }
    fn design_ref(&self) -> &'static str {
        "DESIGN.md 3/C09"
    }
}
#[allow(dead_code)]
fn _unused(_: MaK) {}
