//! C05 — RSI family equals gains/losses over the N most recent changes.

use super::{hash_str, mix, show_inputs};
use crate::dynview::{build_plain, Kind, Spec};
use crate::gen::{self, Class, Rng};
use crate::oracle::window::{self as ow, Ex};
use crate::report::{guarded, Cfg, Monitor, Tier, TrialOut};
use crate::scalar::Scalar;
use crate::xq::Xq;
use sliding_features::View;

pub struct C05;

const LARGE_NS: [usize; 4] = [100, 257, 300, 520];
const CLASSES: [Class; 12] = [
    Class::Walk,
    Class::SmallInt,
    Class::Uniform,
    Class::RampUp,
    Class::RampDown,
    Class::Spike,
    Class::VolatileThenFlat,
    Class::Blocks,
    Class::Const,
    Class::Step,
    Class::Alternating,
    Class::ExtremumCycle,
];

fn kind(i: u64, n: usize) -> Kind {
    if i == 0 {
        Kind::Rsi(n)
    } else {
        Kind::MyRsi(n)
    }
}
fn reference(k: &Kind, xs: &[Xq]) -> Vec<Ex<Xq>> {
    match *k {
        Kind::Rsi(n) => ow::seq_rsi(xs, n),
        Kind::MyRsi(n) => ow::seq_myrsi(xs, n),
        _ => unreachable!(),
    }
}

fn fail(out: &mut TrialOut, k: &Kind, scalar: &str, clause: &str, t: usize, got: String, exp: String, xs: &[f64], extra: &str) {
    out.violation(
        k.name(),
        clause,
        "any",
        format!(
            "{} at {}: step {} (value #{}): got {}, statement gives {} {}\n{}",
            Spec::leaf(*k).show(),
            scalar,
            t,
            t + 1,
            got,
            exp,
            extra,
            show_inputs(xs, t, k.n().unwrap_or(1) + 6)
        ),
    );
}

fn run_exact(k: Kind, xs: &[f64], out: &mut TrialOut) {
    let n = k.n().unwrap();
    let xq: Vec<Xq> = xs.iter().map(|x| Xq::of(*x)).collect();
    let refs = reference(&k, &xq);
    let neg: Vec<Xq> = xq.iter().map(|x| -*x).collect();
    let mut v = build_plain::<Xq>(&Spec::leaf(k));
    let mut vn = build_plain::<Xq>(&Spec::leaf(k));
    let cell = format!("{}/exact", k.name());
    let scale = if matches!(k, Kind::Rsi(_)) { Xq::of(100.0) } else { Xq::of(0.0) };
    for t in 0..xs.len() {
        v.update(xq[t]);
        vn.update(neg[t]);
        let (got, gotn) = (v.last(), vn.last());
        let (g, l) = ow::gains_losses(&xq, t, n);
        let flat = (g + l) == Xq::of(0.0);
        match (got, refs[t]) {
            (Some(a), Ex::Val(e)) => {
                out.cell(&cell, 1);
                if !a.same(e) {
                    fail(out, &k, "Xq", "definition", t, a.show(), e.show(), xs, &format!("(G = {}, L = {} over the {} most recent values)", g.show(), l.show(), n));
                    return;
                }
                if !flat {
                    if l == Xq::of(0.0) {
                        out.count("windows_without_loss(strictly rising => 100 / +1)", 1);
                    }
                    if g == Xq::of(0.0) {
                        out.count("windows_without_gain(strictly falling => 0 / -1)", 1);
                    }
                }
            }
            (None, Ex::Val(e)) => {
                out.cell(&cell, 1);
                fail(out, &k, "Xq", "reports-from-Nth-value", t, "None".into(), e.show(), xs, "");
                return;
            }
            (Some(a), Ex::Nothing) => {
                out.cell(&cell, 1);
                fail(out, &k, "Xq", "reports-from-Nth-value", t, a.show(), "no value before the N-th".into(), xs, "");
                return;
            }
            (Some(_), Ex::Skip) => out.count("steps_skipped_hold_with_nothing_to_hold", 1),
            _ => {}
        }
        if flat {
            out.count("flat_windows(G+L=0)", 1);
        }
        // negation: Rsi -> 100 - Rsi, MyRSI -> -MyRSI, whenever the window is not flat
        if let (Some(a), Some(b), false) = (got, gotn, flat) {
            out.cell(&format!("{}/negation", k.name()), 1);
            let expect = scale - a;
            if !b.same(expect) {
                fail(out, &k, "Xq", "negation", t, b.show(), expect.show(), xs, "(output on the negated stream vs mapped output on the stream)");
                return;
            }
        }
    }
}

fn run_f64(k: Kind, xs: &[f64], out: &mut TrialOut) {
    let n = k.n().unwrap();
    let xq: Vec<Xq> = xs.iter().map(|x| Xq::of(*x)).collect();
    let refs = reference(&k, &xq);
    let mut v = build_plain::<f64>(&Spec::leaf(k));
    let cell = format!("{}/f64", k.name());
    let scale = if matches!(k, Kind::Rsi(_)) { 100.0 } else { 2.0 };
    let mut big = 0f64;
    for t in 0..xs.len() {
        big = big.max(xs[t].abs());
        let Ok(got) = guarded(|| {
            v.update(xs[t]);
            v.last()
        }) else {
            out.count("trials_ended_by_panic_of_code_under_test(C15)", 1);
            return;
        };
        let gl = crate::xq::scoped(|| {
            let (g, l) = ow::gains_losses(&xq, t, n);
            (g + l).f()
        });
        // (second term: in the subnormal range rounding is absolute, half a unit of 2^-1074 per
        // operation - Rsi's G/N and L/N round there, MyRSI's sums do not)
        let env = 64.0 * f64::EPSILON * (t + 1) as f64 * big + 64.0 * n as f64 * 5e-324;
        if let (Some(a), Ex::Val(e)) = (got, refs[t]) {
            if !(gl > 1e3 * env) {
                out.count("f64_steps_skipped_G+L_below_rounding_envelope", 1);
                continue;
            }
            let tol = scale * (4.0 * env / gl + 64.0 * n as f64 * f64::EPSILON);
            out.cell(&cell, 1);
            let e = e.f();
            if !((a - e).abs() <= tol) {
                fail(out, &k, "f64", "definition", t, format!("{:e}", a), format!("{:e}", e), xs, &format!("(difference {:e} > tolerance {:e}; exact G+L = {:e})", (a - e).abs(), tol, gl));
                return;
            }
        }
    }
}

fn ns(cfg: &Cfg) -> Vec<usize> {
    match cfg.tier {
        Tier::Quick => vec![1, 2, 3, 4, 5, 8, 14, 33],
        Tier::Thorough => (1..=64).collect(),
    }
}

impl Monitor for C05 {
    fn id(&self) -> &'static str {
        "C05"
    }
    fn plan(&self, cfg: &Cfg) -> u64 {
        (2 * ns(cfg).len() * CLASSES.len()) as u64 * cfg.tier.pick(4, 16) + 2 * LARGE_NS.len() as u64 * cfg.tier.pick(4, 16)
    }
    fn trial(&self, cfg: &Cfg, idx: u64, out: &mut TrialOut) {
        let nl = ns(cfg);
        let mut rng = Rng::for_trial(cfg.seed, "C05", idx);
        let main = (2 * nl.len() * CLASSES.len()) as u64 * cfg.tier.pick(4, 16);
        if idx >= main {
            // windows beyond any internal block size
            let j = idx - main;
            let n = LARGE_NS[((j / 2) % LARGE_NS.len() as u64) as usize];
            let k = kind(j % 2, n);
            let exact = (j / (2 * LARGE_NS.len() as u64)) % 2 == 0;
            let class = *rng.pick(&[Class::Walk, Class::SmallInt, Class::Uniform, Class::Blocks, Class::Step]);
            let xs = gen::gen(class, n, if exact { n + 200 } else { 3 * n + 400 }, &mut rng);
            out.key(mix(hash_str(&format!("large{:?}{}", k, exact)), gen::hash_f64s(&xs)));
            out.count("large_window_trials", 1);
            if exact {
                run_exact(k, &xs, out)
            } else {
                run_f64(k, &xs, out)
            }
            return;
        }
        let n = nl[((idx / 2) % nl.len() as u64) as usize];
        let n = super::jitter_n(cfg, n, 1, 64, &mut rng);
        let k = kind(idx % 2, n);
        let class = CLASSES[((idx / (2 * nl.len() as u64)) % CLASSES.len() as u64) as usize];
        let rep = idx / (2 * nl.len() * CLASSES.len()) as u64;
        let exact = rep % 2 == 0;
        let len = if exact { (4 * n + 40).min(300) } else { (6 * n + 60).max(cfg.tier.pick(300, 1500)) };
        let mut xs = gen::gen(class, n, len, &mut rng);
        if rng.chance(1, 4) {
            for x in xs.iter_mut() {
                if *x == 0.0 && rng.coin() {
                    *x = -0.0;
                }
            }
            out.count("trials_with_signed_zeros", 1);
        }
        // one trial in six walks in steps of +-2^k, k in -45..5: gains and losses whose ratio reaches
        // 1e15 inside one window (a loss "negligible next to the gain" is still a loss)
        if rng.chance(1, 6) {
            let mut x = 1.0f64;
            for v in xs.iter_mut() {
                x += 2f64.powi(rng.range(-45, 5) as i32) * if rng.coin() { 1.0 } else { -1.0 };
                *v = x;
            }
            out.count("trials_with_steps_spanning_15_decades", 1);
        }
        // one f64 trial in six is quoted in tiny units: the generated values are multiples of 2^-10
        // below 2^15, so that times 2^-1064 / 2^-1040 every value, change and sum of changes is a
        // subnormal number computed without rounding (times 2^-1010: normal values, subnormal
        // changes); G/(G+L) is then the same quotient as at ordinary scale
        if !exact && rng.chance(1, 6) {
            let s = *rng.pick(&[-1064, -1040, -1010]);
            for x in xs.iter_mut() {
                *x *= 2f64.powi(s / 2) * 2f64.powi(s - s / 2);
            }
            out.count("f64_trials_in_subnormal_units", 1);
        }
        out.key(mix(hash_str(&format!("{:?}{}", k, exact)), gen::hash_f64s(&xs)));
        if idx % 131 == 0 {
            out.sample(format!("{} at {} on {:?}: {} values, first {:?}", Spec::leaf(k).show(), if exact { "Xq" } else { "f64" }, class, xs.len(), &xs[..xs.len().min(10)]));
        }
        if exact {
            run_exact(k, &xs, out)
        } else {
            run_f64(k, &xs, out)
        }
    }
    fn required_cells(&self, _cfg: &Cfg) -> Vec<String> {
        ["Rsi/exact", "Rsi/f64", "Rsi/negation", "MyRSI/exact", "MyRSI/f64", "MyRSI/negation"].iter().map(|s| s.to_string()).collect()
    }
    fn rule(&self) -> String {
        "trial = (Rsi or MyRSI, N (grid and random to 64, plus 100, 257, 300, 520), input class: ties, monotone runs, spikes entering and leaving, flat after volatile, ..., scalar); after every update last() is compared with 100 G/(G+L) (100 when L=0) resp. (G-L)/(G+L) (held while G+L=0) evaluated from the recorded history over the N most recent values in exact arithmetic: equality at the exact scalar (plus the negation relation on every non-flat window), tolerance scale x (4 envelope/(G+L) + 64 N eps) at f64 where G+L exceeds 1000 x the rounding envelope. distinct = distinct (view, N, scalar, input hash)".into()
    }
    fn assumptions(&self) -> Vec<String> {
        vec!["MyRSI on a stream flat from its very first value has no previous output to hold: no claim (counted)".into(), "f64 steps whose exact G+L is within the rounding envelope belong to C07/C16".into()]
    }
    fn design_ref(&self) -> &'static str {
        "DESIGN.md 3/C05"
    }
}
