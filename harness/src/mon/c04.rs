//! C04 — moving averages are genuine averages of their window.
//!
//! Clauses (each at the exact scalar with equality / exact inequalities, and at f64 within the
//! rounding envelope): interval, constant, monotone, affine, Ema's recursion, Alma's kernel.

use super::{hash_str, mix, show_inputs};
use crate::dynview::{Kind, Spec};
use crate::gen::{self, Class, Rng};
use crate::oracle::window::{self as ow, Ex};
use crate::report::{guarded, Cfg, Monitor, Tier, TrialOut};
use crate::scalar::Scalar;
use crate::xq::Xq;
use sliding_features::View;

pub struct C04;

const CLASSES: [Class; 10] = [
    Class::Walk,
    Class::SmallInt,
    Class::Uniform,
    Class::ZeroSum,
    Class::Zero,
    Class::Alternating,
    Class::Spike,
    Class::Blocks,
    Class::Step,
    Class::VolatileThenFlat,
];
const NAMES: [&str; 3] = ["Sma", "Ema", "Alma"];
const CLAUSES: [&str; 5] = ["interval", "constant", "monotone", "affine", "definition"];

fn variants(which: usize, n: usize, rng: &mut Rng) -> Kind {
    match which {
        0 => Kind::Sma(n),
        1 => match rng.below(3) {
            0 => Kind::Ema(n),
            1 => Kind::EmaAlpha(n, 1.0),
            _ => Kind::EmaAlpha(n, 0.5),
        },
        _ => match rng.below(4) {
            0 | 1 => Kind::Alma(n),
            2 => Kind::AlmaCustom(n, 2.0, 0.5),
            // (a narrow kernel included: with sigma 16 the tail weights are as small as 1e-220 and, while
            // the window fills, they are the only weights there are; beyond sigma = 22 the first weight
            // of a window of 1 underflows to 0 in f64 as well - known finding 17, not driven here)
            _ => Kind::AlmaCustom(n, *rng.pick(&[2.0, 4.0, 6.0, 16.0]), *rng.pick(&[0.0, 0.5, 0.85, 1.0])),
        },
    }
}

/// Drive the view over a `Script` inner view that delivers nothing for 0..3 updates (a warming-up
/// inner view) and then the values `xs`; returns the outputs from the first delivered value on.
/// While nothing has been delivered the view must report nothing (else: None, reported as a panic-
/// free failure through the `early` flag).
fn drive<T: Scalar>(k: Kind, xs: &[f64]) -> Option<Vec<Option<T>>> {
    let p = (gen::hash_f64s(xs) % 4) as usize;
    guarded(|| {
        let mut env = crate::dynview::Env::<T>::new();
        let mut outs: Vec<Option<T>> = vec![None; p];
        outs.extend(xs.iter().map(|x| Some(T::of(*x))));
        env.add_script(outs);
        let mut v = crate::dynview::build(&Spec::un(k, Spec::Script(0)), &mut env);
        let mut res = Vec::with_capacity(xs.len());
        for i in 0..p + xs.len() {
            // the raw input is unrelated noise: the view must only see what its inner view delivers
            v.update(T::of(1000.0 + i as f64));
            let l = v.last();
            if i < p {
                if l.is_some() {
                    EARLY.with(|e| e.set(true));
                }
            } else {
                res.push(l);
            }
        }
        res
    })
    .ok()
}
thread_local! {
    static EARLY: std::cell::Cell<bool> = const { std::cell::Cell::new(false) };
}

/// the values the view averages at step t (last N for Sma/Alma, all so far for Ema)
fn averaged(k: &Kind, xs: &[f64], t: usize) -> (f64, f64) {
    let lo = match k {
        Kind::Ema(_) | Kind::EmaAlpha(..) => 0,
        _ => (t + 1).saturating_sub(k.n().unwrap().max(1)),
    };
    let w = &xs[lo..=t];
    (w.iter().cloned().fold(f64::INFINITY, f64::min), w.iter().cloned().fold(f64::NEG_INFINITY, f64::max))
}

/// f64 rounding envelope of the view's output after `steps` updates with magnitudes <= big
fn envelope(k: &Kind, steps: usize, big: f64) -> f64 {
    let base = 64.0 * f64::EPSILON * steps as f64 * big;
    match *k {
        Kind::Alma(n) | Kind::AlmaCustom(n, ..) => {
            // running weighted sums: residue of the largest weight ever used, relative to the
            // smallest total weight a full window can have
            let (s, o) = match *k {
                Kind::AlmaCustom(_, s, o) => (s, o),
                _ => (6.0, 0.85),
            };
            let g = |kk: usize| ow::alma_weight::<f64>(kk, n, s, o);
            let wmax = (0..n).map(g).fold(0.0, f64::max);
            let wmin_total = (n as f64 * g(n - 1)).min((0..n).map(g).sum());
            base * wmax / wmin_total
        }
        _ => base,
    }
}

fn fail(out: &mut TrialOut, k: &Kind, scalar: &str, clause: &str, t: usize, detail: String, xs: &[f64]) {
    out.violation(
        k.name(),
        clause,
        "any",
        format!("{} at {}: step {}: {}\n{}", Spec::leaf(*k).show(), scalar, t, detail, show_inputs(xs, t, k.n().unwrap_or(1) + 8)),
    );
}

fn check_interval<T: Scalar>(k: Kind, xs: &[f64], out: &mut TrialOut) {
    let Some(outs) = drive::<T>(k, xs) else { return };
    let cell = format!("{}/interval/{}", k.name(), T::NAME);
    let mut big = 0f64;
    for t in 0..xs.len() {
        big = big.max(xs[t].abs());
        let Some(o) = outs[t] else { continue };
        let (lo, hi) = averaged(&k, xs, t);
        let env = if T::EXACT { 0.0 } else { envelope(&k, t + 1, big) };
        out.cell(&cell, 1);
        let inside = if T::EXACT { o >= T::of(lo) && o <= T::of(hi) } else { o.f() >= lo - env && o.f() <= hi + env };
        if !inside {
            fail(out, &k, T::NAME, "interval", t, format!("output {} outside [{:?}, {:?}] spanned by the averaged values (envelope {:e})", o.show(), lo, hi, env), xs);
            return;
        }
    }
}

fn check_constant<T: Scalar>(k: Kind, c: f64, len: usize, out: &mut TrialOut) {
    let xs = vec![c; len];
    let Some(outs) = drive::<T>(k, &xs) else { return };
    let cell = format!("{}/constant/{}", k.name(), T::NAME);
    for t in 0..len {
        let Some(o) = outs[t] else { continue };
        out.cell(&cell, 1);
        let ok = if T::EXACT { o.same(T::of(c)) } else { (o.f() - c).abs() <= envelope(&k, t + 1, c.abs()).max(4.0 * f64::EPSILON * c.abs()) };
        if !ok {
            fail(out, &k, T::NAME, "constant", t, format!("constant input {:?} gives {}", c, o.show()), &xs);
            return;
        }
    }
}

fn check_monotone<T: Scalar>(k: Kind, xs: &[f64], rng: &mut Rng, out: &mut TrialOut) {
    // y >= x pointwise: raise one sample, a block, or everything
    let mut ys = xs.to_vec();
    match rng.below(3) {
        0 => {
            let i = rng.usize(0, xs.len() - 1);
            ys[i] += rng.range(1, 64) as f64 / 4.0;
        }
        1 => {
            let i = rng.usize(0, xs.len() - 1);
            let j = (i + rng.usize(1, 12)).min(xs.len());
            for y in &mut ys[i..j] {
                *y += rng.range(0, 64) as f64 / 4.0;
            }
        }
        _ => {
            for y in ys.iter_mut() {
                *y += rng.range(0, 8) as f64 / 8.0;
            }
        }
    }
    let (Some(ox), Some(oy)) = (drive::<T>(k, xs), drive::<T>(k, &ys)) else { return };
    let cell = format!("{}/monotone/{}", k.name(), T::NAME);
    let mut big = 0f64;
    for t in 0..xs.len() {
        big = big.max(xs[t].abs()).max(ys[t].abs());
        let (Some(a), Some(b)) = (ox[t], oy[t]) else { continue };
        out.cell(&cell, 1);
        let ok = if T::EXACT { a <= b } else { a.f() <= b.f() + 2.0 * envelope(&k, t + 1, big) };
        if !ok {
            fail(out, &k, T::NAME, "monotone", t, format!("raising inputs lowered the output: {} (x) > {} (y >= x)", a.show(), b.show()), xs);
            return;
        }
    }
}

fn check_affine<T: Scalar>(k: Kind, xs: &[f64], units: f64, rng: &mut Rng, out: &mut TrialOut) {
    let a = *rng.pick(&[0.5, 2.0, 3.0, 0.125, 7.0, 1.0]);
    // (b in the units of the stream, so that a x + b stays exact in f64)
    let b = units * *rng.pick(&[0.0, 1.0, -2.5, 100.0, -1024.0]);
    let ys: Vec<f64> = xs.iter().map(|x| a * x + b).collect();
    let (Some(ox), Some(oy)) = (drive::<T>(k, xs), drive::<T>(k, &ys)) else { return };
    let cell = format!("{}/affine/{}", k.name(), T::NAME);
    let mut big = 0f64;
    for t in 0..xs.len() {
        big = big.max(ys[t].abs()).max(xs[t].abs() * a);
        out.cell(&cell, 1);
        let ok = match (ox[t], oy[t]) {
            (None, None) => true,
            (Some(p), Some(q)) => {
                let e = T::of(a) * p + T::of(b);
                if T::EXACT {
                    q.same(e)
                } else {
                    (q.f() - e.f()).abs() <= 3.0 * envelope(&k, t + 1, big) + 8.0 * f64::EPSILON * big
                }
            }
            _ => false,
        };
        if !ok {
            fail(out, &k, T::NAME, "affine", t, format!("view(a x + b) = {:?} but a view(x) + b with a = {:?}, b = {:?}, view(x) = {:?}", oy[t].map(|v| v.show()), a, b, ox[t].map(|v| v.show())), xs);
            return;
        }
    }
}

fn check_definition<T: Scalar>(k: Kind, xs: &[f64], out: &mut TrialOut) {
    let Some(outs) = drive::<T>(k, xs) else { return };
    let xq: Vec<Xq> = xs.iter().map(|x| Xq::of(*x)).collect();
    let cell = format!("{}/definition/{}", k.name(), T::NAME);
    let mut big = 0f64;
    match k {
        Kind::Sma(n) => {
            for t in 0..xs.len() {
                big = big.max(xs[t].abs());
                let Some(o) = outs[t] else { continue };
                let e = ow::mean(ow::win(&xq[..=t], n));
                out.cell(&cell, 1);
                let ok = if T::EXACT { same_exact(o, e) } else { (o.f() - e.f()).abs() <= envelope(&k, t + 1, big) };
                if !ok {
                    fail(out, &k, T::NAME, "definition", t, format!("got {}, arithmetic mean of the last {} values is {}", o.show(), n, e.show()), xs);
                    return;
                }
            }
        }
        Kind::Ema(n) | Kind::EmaAlpha(n, _) => {
            let alpha = if let Kind::EmaAlpha(_, a) = k { a } else { 2.0 };
            let refs = ow::seq_ema(&xq, n, Xq::of(alpha));
            for t in 0..xs.len() {
                big = big.max(xs[t].abs());
                let (Some(o), Ex::Val(e)) = (outs[t], refs[t]) else { continue };
                out.cell(&cell, 1);
                if e.f() == 0.0 {
                    out.count("ema_reference_state_exactly_zero", 1);
                }
                let ok = if T::EXACT { same_exact(o, e) } else { (o.f() - e.f()).abs() <= envelope(&k, t + 1, big) };
                if !ok {
                    fail(out, &k, T::NAME, "definition", t, format!("got {}, e_t = w x_t + (1-w) e_(t-1) with w = {}/(N+1), e_0 = x_0 gives {}", o.show(), alpha, e.show()), xs);
                    return;
                }
            }
        }
        Kind::Alma(n) | Kind::AlmaCustom(n, ..) => {
            let (s, of) = match k {
                Kind::AlmaCustom(_, s, o) => (s, o),
                _ => (6.0, 0.85),
            };
            for t in 0..xs.len() {
                big = big.max(xs[t].abs());
                let Some(o) = outs[t] else { continue };
                let a = ow::alma_by_position(ow::win(&xq[..=t], n), n, Xq::of(s), Xq::of(of));
                let b = ow::alma_by_insertion(&xq, t, n, Xq::of(s), Xq::of(of));
                out.cell(&cell, 1);
                if t < n {
                    out.count("alma_steps_first_window(readings coincide)", 1);
                }
                let tol = if T::EXACT { 0.0 } else { envelope(&k, t + 1, big) };
                let da = (o.f() - a.f()).abs();
                let db = (o.f() - b.f()).abs();
                let ok = if T::EXACT { same_exact(o, a) || same_exact(o, b) } else { da <= tol || db <= tol };
                if !ok {
                    fail(out, &k, T::NAME, "definition", t, format!("got {}; Gaussian-kernel mean (centre offset (N+1), width N/sigma) weighting by window position gives {}, weighting by position at insertion gives {}", o.show(), a.show(), b.show()), xs);
                    return;
                }
            }
        }
        _ => {}
    }
}

/// equality of a generic exact scalar with an Xq (T is Xq whenever T::EXACT)
fn same_exact<T: Scalar>(o: T, e: Xq) -> bool {
    // T::EXACT implies T == Xq; go through the exact rational image
    let any: &dyn std::any::Any = &o;
    match any.downcast_ref::<Xq>() {
        Some(x) => x.same(e),
        None => false,
    }
}

fn ns(cfg: &Cfg) -> Vec<usize> {
    match cfg.tier {
        Tier::Quick => vec![1, 2, 3, 4, 7, 15, 40],
        Tier::Thorough => (1..=64).collect(),
    }
}

impl Monitor for C04 {
    fn id(&self) -> &'static str {
        "C04"
    }
    fn plan(&self, cfg: &Cfg) -> u64 {
        (3 * 5 * ns(cfg).len() * 2) as u64 * cfg.tier.pick(8, 16)
    }
    fn trial(&self, cfg: &Cfg, idx: u64, out: &mut TrialOut) {
        let nl = ns(cfg);
        let mut rng = Rng::for_trial(cfg.seed, "C04", idx);
        let which = (idx % 3) as usize;
        let clause = ((idx / 3) % 5) as usize;
        let n = nl[((idx / 15) % nl.len() as u64) as usize];
        let n = super::jitter_n(cfg, n, 1, 64, &mut rng);
        let exact = (idx / (15 * nl.len() as u64)) % 2 == 0;
        let k = variants(which, n, &mut rng);
        let class = *rng.pick(&CLASSES);
        let len = if exact { (6 * n + 12).min(200) } else { 6 * n + rng.usize(20, cfg.tier.pick(300, 1500)) };
        let mut xs = gen::gen(class, n, len, &mut rng);
        let mut units = 1.0f64;
        // Ema, interval and recursion clauses at f64, one trial in six: values of both signs at up to
        // 0.7 x the largest finite f64 (an average of finite values is finite; a difference x - e of
        // two of them need not be)
        if !exact && which == 1 && (clause == 0 || clause == 4) && rng.chance(1, 6) {
            let top = 0.7 * f64::MAX;
            for (i, x) in xs.iter_mut().enumerate() {
                let m = top * (0.5 + 0.5 * rng.unit53());
                *x = if (i / rng.usize(1, 3).max(1)) % 2 == 0 { m } else { -m };
            }
            out.count("ema_trials_near_the_largest_finite_value", 1);
        }
        // one trial in five: the whole stream in other units - an exact power of two, so its structure is
        // unchanged; an average knows no absolute scale, and every tolerance here is relative to the
        // largest magnitude delivered
        else if rng.chance(1, 5) {
            let s = 2f64.powi(*rng.pick(&[-600, -200, -70, -60, 200, 600]));
            for x in xs.iter_mut() {
                *x *= s;
            }
            units = s;
            out.count("trials_in_other_units(2^-600..2^600)", 1);
        }
        out.key(mix(hash_str(&format!("{:?}{}{}", k, clause, exact)), gen::hash_f64s(&xs)));
        if idx % 149 == 0 {
            out.sample(format!("{} clause {} at {} on {:?}: {} values", Spec::leaf(k).show(), CLAUSES[clause], if exact { "Xq" } else { "f64" }, class, xs.len()));
        }
        macro_rules! go {
            ($t:ty) => {
                match clause {
                    0 => check_interval::<$t>(k, &xs, out),
                    1 => check_constant::<$t>(k, *rng.pick(&[1.0, -2.5, 0.0, 1000.0, 0.1, 1.0 / 3.0, 3.0e-18, -1.5e-60, 1.0e200]), len, out),
                    2 => check_monotone::<$t>(k, &xs, &mut rng, out),
                    3 => check_affine::<$t>(k, &xs, units, &mut rng, out),
                    _ => check_definition::<$t>(k, &xs, out),
                }
            };
        }
        EARLY.with(|e| e.set(false));
        if exact {
            go!(Xq)
        } else {
            go!(f64)
        }
        if EARLY.with(|e| e.get()) {
            out.violation(k.name(), "reports-before-anything-was-delivered", "any", format!("{}: last() returned a value while its inner view had delivered nothing yet", Spec::un(k, Spec::Script(0)).show()));
        }
    }
    fn required_cells(&self, _cfg: &Cfg) -> Vec<String> {
        let mut v = vec![];
        for n in NAMES {
            for c in CLAUSES {
                for s in ["Xq", "f64"] {
                    v.push(format!("{}/{}/{}", n, c, s));
                }
            }
        }
        v
    }
    fn rule(&self) -> String {
        "trial = (Sma | Ema with default or custom alpha | Alma with default or custom sigma/offset; clause; N; input class incl. streams containing or averaging to exactly 0; scalar); the view sits over a Script inner view that delivers nothing for 0..3 updates and then the stream, while the raw inputs are unrelated noise. interval: output inside [min,max] of the averaged values; constant: reproduced; monotone: y >= x pointwise (one sample, a block or everything raised) implies out(y) >= out(x) at every step; affine: view(a x + b) = a view(x) + b; definition: arithmetic mean / e_0 = x_0, e_t = w x_t + (1-w) e_(t-1) / normalised Gaussian-kernel mean (both weight-assignment readings the statements admit). Exact inequalities and equalities at the exact scalar, a-priori rounding envelope at f64. distinct = distinct (view+parameters, clause, scalar, input hash)".into()
    }
    fn assumptions(&self) -> Vec<String> {
        vec![
            "Alma: the statement does not say which sample carries which kernel weight; weight by window position and weight by position at insertion are both accepted (DESIGN.md section 6)".into(),
            "admissible parameters: alpha in {0.5, 1, 2} (w <= 1), sigma in {2,4,6}, offset in {0.5, 0.85, 1}".into(),
        ]
    }
    fn design_ref(&self) -> &'static str {
        "DESIGN.md 3/C04"
    }
}
