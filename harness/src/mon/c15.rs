//! C15 — no panic: every constructed view accepts every finite in-domain stream.
//!
//! Panic trap (`catch_unwind` + a hook that records message and source location) around
//! construction and around every `update` / `last`, in the dev profile (debug assertions and
//! overflow checks: rustc's run-time instrumentation) and in the release profile.  A panic in a
//! constructor is "constructor rejects N" (allowed, counted); a panic afterwards is a violation
//! whose witness is the panic site.

use super::{hash_str, mix, show_inputs};
use crate::catalogue::{self, all_unary, BINS};
use crate::dynview::{build_plain, BinK, Dyn, Kind, MaK, Spec};
use crate::gen::{self, Class, Rng, ALL_CLASSES};
use crate::report::{guarded, Cfg, Monitor, Profile, Tier, TrialOut};
use crate::scalar::Scalar;
use sliding_features::View;

pub struct C15;

const MODERATE: f64 = 1048576.0; // 2^20

fn panic_site(msg: &str) -> (String, String) {
    // "message @ file:line" -> (file stem, whole)
    let site = msg.rsplit(" @ ").next().unwrap_or("?");
    let file = site.split(':').next().unwrap_or("?");
    let stem = file.rsplit('/').next().unwrap_or(file).to_string();
    (stem, msg.to_string())
}

fn in_repo(msg: &str) -> bool {
    let site = msg.rsplit(" @ ").next().unwrap_or("");
    site.contains("sliding_windows/") || site.contains("pure_functions/") || site.contains("rolling/") || site.starts_with("/repo/") || site.starts_with("src/")
}

/// secondary-parameter grid of a kind at window n
fn variants(n: usize) -> Vec<Kind> {
    use Kind::*;
    let mut v = all_unary(n);
    // (weights alpha / (N + 1) of 1 and 1.5 included: the constructor accepts them and the
    // recursion stays stable up to a weight of 2)
    for a in [0.5, 1.0, 2.0, (n + 1) as f64, 1.5 * (n + 1) as f64] {
        v.push(EmaAlpha(n, a));
    }
    for s in [2.0, 6.0, 10.0] {
        for o in [0.0, 0.5, 0.85, 1.0] {
            v.push(AlmaCustom(n, s, o));
        }
    }
    for g in [0.0, 0.25, 0.5, 0.75, 0.8125, 0.9375] {
        v.push(LagFilter(g));
    }
    for c in [-1.0, 0.0, 0.5, 1.0] {
        v.push(Gte(c));
        v.push(Lte(c));
    }
    for m in [1usize, 2, 3, 10] {
        v.push(Roofing(n, m));
    }
    v
}

struct Trap<'a> {
    spec: &'a Spec,
    xs: &'a [f64],
    scalar: &'static str,
    predicate: &'static str,
}

/// Narrow predicate for the one recorded known finding: an Alma whose very first kernel weight
/// exp(-(0-m)^2/(2 s^2)) underflows to 0 in the scalar under test, so that the first normalisation
/// is 0/0.  Anything else gets the predicate "any".
fn predicate_for<T: Scalar>(spec: &Spec) -> &'static str {
    if let Spec::Un(Kind::AlmaCustom(n, sigma, offset), _) = spec {
        let wl = T::of(*n as f64);
        let m = T::of(*offset) * (wl + T::one());
        let s = wl / T::of(*sigma);
        let w0 = (-(T::zero() - m).powi(2) / (T::of(2.0) * s * s)).exp();
        if w0 == T::zero() {
            return "first_kernel_weight_underflows_to_zero";
        }
    }
    "any"
}

fn report(out: &mut TrialOut, t: &Trap, call: &str, step: usize, msg: &str) {
    let (stem, whole) = panic_site(msg);
    let view = if in_repo(msg) { stem } else { t.spec.top() };
    out.violation(
        &view,
        &format!("panic-in-{}/{}/{}", call, t.scalar, Profile::current().name()),
        t.predicate,
        format!(
            "{} at {} ({} profile): {}() panicked at step {}: {}\n{}",
            t.spec.show(),
            t.scalar,
            Profile::current().name(),
            call,
            step,
            whole,
            show_inputs(t.xs, step, 40)
        ),
    );
}

/// outcome of constructing a view under the trap
fn construct<T: Scalar>(spec: &Spec, out: &mut TrialOut) -> Option<Dyn<T>> {
    match guarded(|| build_plain::<T>(spec)) {
        Ok(v) => Some(v),
        Err(m) => {
            if m.starts_with("XQ-BLOWN") {
                std::panic::resume_unwind(Box::new(m));
            }
            out.count(&format!("constructor_rejects/{}", spec.show()), 1);
            out.count("constructor_rejections", 1);
            None
        }
    }
}

fn run_single<T: Scalar>(spec: &Spec, xs: &[f64], rng: &mut Rng, out: &mut TrialOut, cell: &str) {
    out.key(mix(hash_str(&spec.show()), mix(gen::hash_f64s(xs), hash_str(T::NAME))));
    let trap = Trap { spec, xs, scalar: T::NAME, predicate: predicate_for::<T>(spec) };
    let Some(mut v) = construct::<T>(spec, out) else {
        return;
    };
    // last() before any update, possibly several times
    for _ in 0..rng.usize(1, 3) {
        out.cell(cell, 1);
        if let Err(m) = guarded(|| v.last()) {
            report(out, &trap, "last", 0, &m);
            return;
        }
    }
    let mut somes = 0u64;
    for (i, x) in xs.iter().enumerate() {
        out.cell(cell, 1);
        if let Err(m) = guarded(|| v.update(T::of(*x))) {
            report(out, &trap, "update", i, &m);
            return;
        }
        for _ in 0..rng.usize(0, 2) {
            match guarded(|| v.last()) {
                Err(m) => {
                    report(out, &trap, "last", i, &m);
                    return;
                }
                Ok(Some(_)) => somes += 1,
                Ok(None) => {}
            }
        }
    }
    out.count("last_calls_with_output", somes);
}

/// two-level chain: the outer view must only ever receive finite, in-domain, moderate values;
/// a twin of the inner view is asked first and the trial stops when its next output leaves the
/// outer view's domain
fn run_chain<T: Scalar>(outer: Kind, inner: Kind, xs: &[f64], rng: &mut Rng, out: &mut TrialOut) {
    let spec = Spec::un(outer, Spec::leaf(inner));
    out.key(mix(hash_str(&spec.show()), mix(gen::hash_f64s(xs), hash_str(T::NAME))));
    let trap = Trap { spec: &spec, xs, scalar: T::NAME, predicate: predicate_for::<T>(&spec) };
    let cell = format!("chain-outer/{}", outer.name());
    let Some(mut chain) = construct::<T>(&spec, out) else {
        return;
    };
    let Some(mut twin) = construct::<T>(&Spec::leaf(inner), out) else {
        return;
    };
    let need_pos = catalogue::needs_positive(&outer);
    for (i, x) in xs.iter().enumerate() {
        // what will the outer view be handed at this step?
        match guarded(|| {
            twin.update(T::of(*x));
            twin.last()
        }) {
            Err(m) => {
                // the inner view itself panics: that is a violation of the inner view alone
                report(out, &Trap { spec: &Spec::leaf(inner), xs, scalar: T::NAME, predicate: predicate_for::<T>(&Spec::leaf(inner)) }, "update", i, &m);
                return;
            }
            Ok(Some(o)) => {
                let f = o.f();
                if !o.is_finite() || f.abs() > MODERATE || (f != 0.0 && f.abs() < 1.0 / MODERATE / 1024.0) || (need_pos && f <= 0.0) {
                    out.count("chain_trials_stopped_inner_output_out_of_domain", 1);
                    return;
                }
            }
            Ok(None) => {}
        }
        out.cell(&cell, 1);
        if let Err(m) = guarded(|| chain.update(T::of(*x))) {
            report(out, &trap, "update", i, &m);
            return;
        }
        if rng.coin() {
            if let Err(m) = guarded(|| chain.last()) {
                report(out, &trap, "last", i, &m);
                return;
            }
        }
    }
}

fn stream(class: Class, n: usize, len: usize, positive: bool, rng: &mut Rng) -> Vec<f64> {
    let xs = gen::gen(class, n, len, rng);
    if positive {
        gen::positive(&xs)
    } else {
        xs
    }
}

fn ns(cfg: &Cfg) -> Vec<usize> {
    match cfg.tier {
        Tier::Quick => vec![1, 2, 3, 4, 5, 8, 13, 31, 64],
        Tier::Thorough => (1..=64).collect(),
    }
}

#[derive(Clone, Copy)]
enum Sect {
    Singles,
    Ma,
    Bins,
    Chains,
    Long,
    /// exactly linear (and exactly constant) windows off the dyadic grid, windows of 20..64:
    /// an internal assertion about a ratio that is 1 in exact arithmetic is tightest there
    Lines,
    /// two-level chains whose inner view (Roc over a stream that sits at 0) delivers nothing for about
    /// 2^16 or 2^17 updates and then starts: a counter of update() calls that stands in for "the
    /// window must be full by now" is wrong exactly there
    Late,
}
fn sections(cfg: &Cfg) -> Vec<(Sect, u64)> {
    let nn = ns(cfg).len() as u64;
    let var = variants(3).len() as u64;
    let cls = ALL_CLASSES.len() as u64;
    let q = cfg.tier == Tier::Quick;
    vec![
        (Sect::Singles, nn * var * if q { 6 } else { cls }),
        (Sect::Ma, nn * 2 * 4 * if q { 4 } else { cls }),
        (Sect::Bins, if q { 400 } else { 200_000 }),
        (Sect::Chains, if q { 4_000 } else { 2_000_000 }),
        (Sect::Long, nn * var),
        (Sect::Lines, all_unary(3).len() as u64 * if q { 640 } else { 2400 }),
        (Sect::Late, var * if q { 2 } else { 8 }),
    ]
}

fn dispatch<T: Scalar>(cfg: &Cfg, sect: Sect, j: u64, rng: &mut Rng, out: &mut TrialOut) {
    let nlist = ns(cfg);
    let nn = nlist.len() as u64;
    let var = variants(3).len() as u64;
    match sect {
        Sect::Singles | Sect::Long => {
            let n = nlist[(j % nn) as usize];
            let k = variants(n)[((j / nn) % var) as usize];
            let r = j / (nn * var);
            let long = matches!(sect, Sect::Long);
            let class = if long {
                *rng.pick(&[Class::Uniform, Class::Walk, Class::Alternating, Class::Sine, Class::SmallInt])
            } else if cfg.tier == Tier::Quick {
                // six classes per cell, rotating so that all classes are used across cells
                ALL_CLASSES[((r * 3 + j) % ALL_CLASSES.len() as u64) as usize]
            } else {
                ALL_CLASSES[(r % ALL_CLASSES.len() as u64) as usize]
            };
            let len = if long {
                4 * n + 600
            } else {
                match rng.below(4) {
                    0 => rng.usize(0, n), // shorter than the window
                    1 => n + rng.usize(0, 3),
                    _ => 2 * n + rng.usize(5, 60),
                }
            };
            let spec = Spec::leaf(k);
            let xs = stream(class, n, len, catalogue::needs_positive(&k), rng);
            if out.trial % 997 == 0 {
                out.sample(format!("{} at {} on {:?}, {} values, last() interleaved at random", spec.show(), T::NAME, class, xs.len()));
            }
            run_single::<T>(&spec, &xs, rng, out, &format!("view/{}", k.name()));
        }
        Sect::Lines => {
            let u = all_unary(3).len() as u64;
            let n = if rng.chance(2, 3) { rng.usize(33, 64) } else { rng.usize(20, 64) };
            let k = catalogue::bump_n(all_unary(n)[(j % u) as usize], n);
            let start = *rng.pick(&[100.0, 1000.0, 0.7, 12345.6]);
            let step = *rng.pick(&[1.0 / 3.0, -1.0 / 3.0, 0.1, -0.7, 1e-3, 0.0, 2.3]);
            let len = 2 * n + rng.usize(0, 40);
            let lead = rng.usize(0, 3);
            let mut xs: Vec<f64> = (0..lead).map(|i| start * 0.5 + i as f64).collect();
            xs.extend((0..len).map(|i| start + step * i as f64));
            if catalogue::needs_positive(&k) {
                xs = xs.iter().map(|x| x.abs() + 0.015625).collect();
            }
            let spec = Spec::leaf(k);
            out.count("off_grid_line_trials", 1);
            run_single::<T>(&spec, &xs, rng, out, &format!("view/{}", k.name()));
        }
        Sect::Ma => {
            let n = nlist[(j % nn) as usize];
            let mk = if (j / nn) % 2 == 0 { MaK::Pfe } else { MaK::Eft };
            let mi = ((j / (2 * nn)) % 4) as usize;
            let man = *rng.pick(&[1usize, 2, 3, 5, 9]);
            let ma = if mk == MaK::Eft && rng.chance(1, 3) { rng.pick(&catalogue::overshooting_ma_specs(man.max(2))).clone() } else { catalogue::ma_specs(man)[mi].clone() };
            let class = *rng.pick(ALL_CLASSES);
            let len = if rng.coin() { rng.usize(0, n + 2) } else { 2 * n + rng.usize(5, 80) };
            let spec = Spec::ma(mk, n, Spec::Echo, ma);
            let xs = stream(class, n, len, false, rng);
            run_single::<T>(&spec, &xs, rng, out, &format!("view/{}", spec.top()));
        }
        Sect::Bins => {
            let k = BINS[(j % 4) as usize];
            let n1 = rng.usize(1, 12);
            let n2 = rng.usize(1, 12);
            let a = catalogue::random_unary(rng, n1, n1);
            // divisor: a view that keeps strictly positive input strictly positive
            let b = if k == BinK::Divide {
                *rng.pick(&[Kind::Sma(n2), Kind::Ema(n2), Kind::Min(n2), Kind::Max(n2), Kind::Cumulative(n2), Kind::LagFilter(0.5)])
            } else {
                catalogue::random_unary(rng, n2, n2)
            };
            let spec = Spec::bin(k, Spec::leaf(a), Spec::leaf(b));
            let class = *rng.pick(ALL_CLASSES);
            let pos = k == BinK::Divide || catalogue::spec_needs_positive(&spec);
            let xs = stream(class, n1.max(n2), rng.usize(0, 120), pos, rng);
            run_single::<T>(&spec, &xs, rng, out, &format!("view/{:?}", k));
        }
        Sect::Late => {
            let no = *rng.pick(&[2usize, 3, 8, 20]);
            let outer = catalogue::bump_n(variants(no)[(j % var) as usize], no);
            // (Roc(2) delivers from the third non-zero value on: with d = 3..no+1 values missing to the power of
            // two, the outer view has received between one value and a window less one at that update)
            let d = if rng.chance(3, 4) { 3 + rng.usize(0, no - 2) } else { rng.usize(0, no + 6) };
            let zeros = *rng.pick(&[65_536usize, 131_072]) - d;
            let mut xs = vec![0.0; zeros];
            let mut x = 0.0f64;
            for _ in 0..(4 * no + 40) {
                x += 0.5 + rng.range(0, 64) as f64 / 16.0;
                xs.push(x);
            }
            out.count("chains_whose_inner_view_starts_delivering_after_2^16_or_2^17_updates", 1);
            run_chain::<T>(outer, Kind::Roc(2), &xs, rng, out);
        }
        Sect::Chains => {
            let no = rng.usize(1, 16);
            let ni = rng.usize(1, 16);
            let vo = variants(no);
            let outer = catalogue::bump_n(vo[(j % var) as usize], no);
            let mut inner = catalogue::random_unary(rng, ni, ni);
            if catalogue::needs_positive(&outer) && !catalogue::positive_preserving(&inner) {
                inner = *rng.pick(&[Kind::Sma(ni), Kind::Ema(ni), Kind::Max(ni), Kind::Min(ni), Kind::Alma(ni)]);
            }
            let class = *rng.pick(ALL_CLASSES);
            let pos = catalogue::needs_positive(&outer) || catalogue::needs_positive(&inner);
            let xs = stream(class, no.max(ni), rng.usize(0, 3 * (no + ni) + 40), pos, rng);
            run_chain::<T>(outer, inner, &xs, rng, out);
        }
    }
}

impl Monitor for C15 {
    fn id(&self) -> &'static str {
        "C15"
    }
    fn dev_pass(&self) -> bool {
        true
    }
    fn plan(&self, cfg: &Cfg) -> u64 {
        sections(cfg).iter().map(|s| s.1).sum()
    }
    fn trial(&self, cfg: &Cfg, idx: u64, out: &mut TrialOut) {
        let mut j = idx;
        let mut sect = Sect::Singles;
        for (s, n) in sections(cfg) {
            if j < n {
                sect = s;
                break;
            }
            j -= n;
        }
        let mut rng = Rng::for_trial(cfg.seed, "C15", idx);
        // f32 on a quarter of the trials in thorough, an eighth in quick
        let f32_every = cfg.tier.pick(8, 4);
        if idx % f32_every == 1 {
            dispatch::<f32>(cfg, sect, j, &mut rng, out)
        } else {
            dispatch::<f64>(cfg, sect, j, &mut rng, out)
        }
    }
    fn required_cells(&self, _cfg: &Cfg) -> Vec<String> {
        let mut names: Vec<String> = all_unary(3).iter().map(|k| format!("view/{}", k.name())).collect();
        names.extend(all_unary(3).iter().map(|k| format!("chain-outer/{}", k.name())));
        names.sort();
        names.dedup();
        names.push("view/PolarizedFractalEfficiency".into());
        names.push("view/EhlersFisherTransform".into());
        for b in BINS {
            names.push(format!("view/{:?}", b));
        }
        names
    }
    fn rule(&self) -> String {
        "trial = (view with one point of its parameter grid, N in 1..64, input class, stream length: shorter than / about / several times the window, or 4N+600; exactly linear off-grid streams at windows 20..64) or a two-level chain whose inner outputs are checked to stay finite, in the outer view's domain and of moderate magnitude (0 or within 2^-30..2^20) before the outer view receives them; construction and every update()/last() run under catch_unwind in the dev profile (debug assertions + overflow checks) and in the release profile; last() calls interleaved at random, also before the first update. distinct = distinct (tree, input hash, scalar); non-trivial = at least one call executed under the trap".into()
    }
    fn assumptions(&self) -> Vec<String> {
        vec![
            "inputs: finite dyadic values of magnitude <= 2^20 (positive for Drawdown/LnReturn, positive for a Divide divisor built from averaging views)".into(),
            "a panic inside a constructor is the constructor rejecting the parameters (allowed, counted per spec)".into(),
        ]
    }
    fn design_ref(&self) -> &'static str {
        "DESIGN.md 3/C15"
    }
}
