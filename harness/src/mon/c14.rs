//! C14 — combinators are pointwise, stateless functions of their children.
//!
//! Children are `Script`s (outputs dictated: a None prefix, then Some for ever); the raw inputs
//! are unrelated noise.  Oracle: the operation itself applied to the children's current outputs,
//! compared bit-exactly (f64/f32) resp. exactly (Xq).  A second instance with a different
//! history but the same current child outputs at "sync" steps must agree at those steps.

use super::{hash_str, mix, show_inputs};
use crate::dynview::{build, BinK, Env, Kind, Spec};
use crate::gen::Rng;
use crate::report::{Cfg, Monitor, TrialOut};
use crate::scalar::{same_opt, show_opt, Scalar};
use crate::xq::Xq;
use sliding_features::View;

pub struct C14;

#[derive(Clone, Copy, Debug, PartialEq)]
enum Op {
    Bin(BinK),
    Tanh,
    Gte,
    Lte,
    Echo,
    Constant,
}
const OPS: [Op; 9] = [
    Op::Bin(BinK::Add),
    Op::Bin(BinK::Subtract),
    Op::Bin(BinK::Multiply),
    Op::Bin(BinK::Divide),
    Op::Tanh,
    Op::Gte,
    Op::Lte,
    Op::Echo,
    Op::Constant,
];
fn op_name(o: Op) -> String {
    match o {
        Op::Bin(k) => format!("{:?}", k),
        Op::Tanh => "Tanh".into(),
        Op::Gte => "GTE".into(),
        Op::Lte => "LTE".into(),
        Op::Echo => "Echo".into(),
        Op::Constant => "Constant".into(),
    }
}
const SCALARS: [&str; 3] = ["f64", "f32", "Xq"];

// Tanh's argument, where the function changes regime: the last stretch before the result rounds to
// +-1 (|x| about 19.06 at f64, 9.01 at f32), the stretch where tanh x rounds to x (|x| below about
// 2^-27, resp. 2^-12), a fine grid around 1, and far beyond saturation.
fn tanh_value(rng: &mut Rng) -> f64 {
    let fine = rng.range(0, 1 << 21) as f64 / (1u64 << 20) as f64; // [0, 2)
    let m = match rng.below(6) {
        0 => 18.0 + fine,
        1 => 8.0 + fine,
        2 => (1.0 + fine) * 2f64.powi(-(rng.range(20, 34) as i32)),
        3 => (1.0 + fine) * 2f64.powi(-(rng.range(8, 16) as i32)),
        4 => (1.0 + fine) * 2f64.powi(rng.range(5, 60) as i32),
        _ => 0.25 + 2.0 * fine,
    };
    if rng.coin() {
        m
    } else {
        -m
    }
}

fn value(rng: &mut Rng, clip: f64, nonzero: bool, tanh: bool) -> f64 {
    if tanh && rng.chance(1, 3) {
        return tanh_value(rng);
    }
    loop {
        let v = match rng.below(12) {
            0 => 0.0,
            1 => -0.0,
            2 => clip,
            3 => clip + 0.25,
            4 => clip - 0.25,
            5 => 1.0,
            6 => -1.0,
            7 => 2f64.powi(-140), // denormal in f32, tiny in f64
            8 => (rng.range(-8, 8)) as f64,
            _ => rng.range(-(1 << 19), 1 << 19) as f64 / 64.0,
        };
        if !(nonzero && v == 0.0) {
            return v;
        }
    }
}

fn run<T: Scalar>(op: Op, rng: &mut Rng, out: &mut TrialOut, cfg_trial: u64) {
    let len = rng.usize(40, 160);
    let clip = *rng.pick(&[-1.0, 0.0, 0.5, 1.0, 3.75]);
    let none_a = rng.usize(0, 9);
    let none_b = rng.usize(0, 9);
    let div = op == Op::Bin(BinK::Divide);
    // two histories; equal at sync steps
    let mut a1 = vec![];
    let mut b1 = vec![];
    let mut a2 = vec![];
    let mut b2 = vec![];
    let first_some = none_a.max(none_b);
    for i in 0..len {
        let th = op == Op::Tanh;
        let va = value(rng, clip, false, th);
        let mut vb = value(rng, clip, div, false);
        // one pair in twelve: b is the negative (or the same-sign twin) of a float adjacent to a, so
        // that a + b (resp. a - b) is a single ulp - a result that is exact and must be reported as is
        if va != 0.0 && va.is_finite() && rng.chance(1, 12) {
            let near = f64::from_bits(va.to_bits() + 1 + rng.below(2));
            // (at f32 the neighbour must be one of a's f32 neighbours)
            let near = if T::NAME == "f32" { f32::from_bits((va as f32).to_bits() + 1) as f64 } else { near };
            vb = if rng.coin() { -near } else { near };
        }
        let sync = i >= first_some && i % 3 == 0;
        a1.push(if i < none_a { None } else { Some(va) });
        b1.push(if i < none_b { None } else { Some(vb) });
        let (wa, wb) = if sync {
            (va, vb)
        } else {
            (value(rng, clip, false, th), value(rng, clip, div, false))
        };
        a2.push(if i < none_a { None } else { Some(wa) });
        b2.push(if i < none_b { None } else { Some(wb) });
    }
    // unrelated noise with runs of exact repeats (a combinator must not key anything on the raw input)
    let mut mk_raw = |rng: &mut Rng| -> Vec<f64> {
        let mut v: Vec<f64> = Vec::with_capacity(len);
        for i in 0..len {
            if i > 0 && rng.chance(1, 3) {
                v.push(v[i - 1]);
            } else {
                v.push(rng.range(-1000, 1000) as f64 / 8.0);
            }
        }
        v
    };
    let raw1 = mk_raw(rng);
    let raw2 = mk_raw(rng);
    let name = op_name(op);
    let cell = format!("{}/{}", name, T::NAME);
    out.key(mix(hash_str(&cell), cfg_trial));

    let cst = clip;
    let spec = match op {
        Op::Bin(k) => Spec::bin(k, Spec::Script(0), Spec::Script(1)),
        Op::Tanh => Spec::un(Kind::Tanh, Spec::Script(0)),
        Op::Gte => Spec::un(Kind::Gte(clip), Spec::Script(0)),
        Op::Lte => Spec::un(Kind::Lte(clip), Spec::Script(0)),
        Op::Echo => Spec::Echo,
        Op::Constant => Spec::Constant(cst),
    };
    let to_t = |v: &Vec<Option<f64>>| -> Vec<Option<T>> { v.iter().map(|o| o.map(T::of)).collect() };
    let mk = |a: &Vec<Option<f64>>, b: &Vec<Option<f64>>| {
        let mut env = Env::<T>::new();
        env.add_script(to_t(a));
        env.add_script(to_t(b));
        build(&spec, &mut env)
    };
    let mut v1 = mk(&a1, &b1);
    let mut v2 = mk(&a2, &b2);

    let oracle = |a: Option<f64>, b: Option<f64>, raw: f64| -> Option<T> {
        match op {
            Op::Bin(k) => match (a, b) {
                (Some(a), Some(b)) => {
                    let (a, b) = (T::of(a), T::of(b));
                    Some(match k {
                        BinK::Add => a + b,
                        BinK::Subtract => a - b,
                        BinK::Multiply => a * b,
                        BinK::Divide => a / b,
                    })
                }
                _ => None,
            },
            Op::Tanh => a.map(|a| T::of(a).tanh()),
            Op::Gte => a.map(|a| if a >= clip { T::of(a) } else { T::of(clip) }),
            Op::Lte => a.map(|a| if a <= clip { T::of(a) } else { T::of(clip) }),
            Op::Echo => Some(T::of(raw)),
            Op::Constant => Some(T::of(cst)),
        }
    };
    // before any update
    let pre = v1.last();
    let pre_exp = if op == Op::Constant { Some(T::of(cst)) } else { None };
    out.cell(&cell, 1);
    if !same_opt(pre, pre_exp) {
        out.violation(
            &name,
            "before-first-update",
            "any",
            format!(
                "{} at {}: last() before any update = {}, expected {}",
                spec.show(),
                T::NAME,
                show_opt(pre),
                show_opt(pre_exp)
            ),
        );
        return;
    }
    let by_value = matches!(op, Op::Gte | Op::Lte);
    let eq = |x: Option<T>, y: Option<T>| -> bool {
        if by_value {
            match (x, y) {
                (None, None) => true,
                (Some(p), Some(q)) => p == q,
                _ => false,
            }
        } else {
            same_opt(x, y)
        }
    };
    let mut somes = 0u64;
    for i in 0..len {
        v1.update(T::of(raw1[i]));
        v2.update(T::of(raw2[i]));
        let g1 = v1.last();
        let g2 = v2.last();
        let e1 = oracle(a1[i], b1[i], raw1[i]);
        out.cell(&cell, 1);
        if e1.is_some() {
            somes += 1;
        }
        if !eq(g1, e1) {
            out.violation(
                &name,
                "pointwise",
                "any",
                format!(
                    "{} at {}: step {} children=({:?}, {:?}) clip/const={} raw={:?}: got {}, expected {}\n{}",
                    spec.show(),
                    T::NAME,
                    i,
                    a1[i],
                    b1[i],
                    clip,
                    raw1[i],
                    show_opt(g1),
                    show_opt(e1),
                    show_inputs(&raw1, i, 8)
                ),
            );
            return;
        }
        let sync = i >= first_some && i % 3 == 0;
        if sync && !matches!(op, Op::Echo) {
            out.cell(&format!("{}/stateless", name), 1);
            if !eq(g1, g2) {
                out.violation(
                    &name,
                    "stateless",
                    "any",
                    format!(
                        "{} at {}: step {}: two histories with the same current child outputs ({:?}, {:?}) give {} and {}",
                        spec.show(),
                        T::NAME,
                        i,
                        a1[i],
                        b1[i],
                        show_opt(g1),
                        show_opt(g2)
                    ),
                );
                return;
            }
        }
    }
    out.count("steps_with_output", somes);
    out.count("steps_children_not_ready", len as u64 - somes);
    if out.samples.is_empty() && cfg_trial % 97 == 0 {
        out.sample(format!(
            "{} at {}: {} steps, child A None for {} steps, child B None for {}; first child outputs {:?} / {:?}",
            spec.show(),
            T::NAME,
            len,
            none_a,
            none_b,
            &a1[..a1.len().min(12)],
            &b1[..b1.len().min(12)]
        ));
    }
}

impl Monitor for C14 {
    fn id(&self) -> &'static str {
        "C14"
    }
    fn plan(&self, cfg: &Cfg) -> u64 {
        (OPS.len() * SCALARS.len()) as u64 * cfg.tier.pick(60, 160_000)
    }
    fn trial(&self, cfg: &Cfg, idx: u64, out: &mut TrialOut) {
        let combos = (OPS.len() * SCALARS.len()) as u64;
        let c = idx % combos;
        let op = OPS[(c / 3) as usize];
        let mut rng = Rng::for_trial(cfg.seed, "C14", idx);
        match c % 3 {
            0 => run::<f64>(op, &mut rng, out, idx),
            1 => run::<f32>(op, &mut rng, out, idx),
            _ => run::<Xq>(op, &mut rng, out, idx),
        }
    }
    fn required_cells(&self, _cfg: &Cfg) -> Vec<String> {
        let mut v = vec![];
        for o in OPS {
            for s in SCALARS {
                v.push(format!("{}/{}", op_name(o), s));
            }
        }
        v
    }
    fn rule(&self) -> String {
        "trial = (combinator kind, scalar, seeded script pair): children are Script views with a None prefix of 0..9 steps and then prescribed values (zeros, -0, clip, clip±1/4, denormal, random dyadics, pairs that are adjacent floats of equal or opposite sign; non-zero divisor; for Tanh a third of the arguments lie where the function changes regime: 18..20 and 8..10 on a 2^-20 grid, 2^-34..2^-8, 2^5..2^60), raw inputs are unrelated noise; every update is compared with the operation applied to the children's current outputs (to_bits identity; by value for GTE/LTE). distinct = distinct (kind, scalar, trial stream); non-trivial = at least one comparison made.".into()
    }
    fn assumptions(&self) -> Vec<String> {
        vec![
            "children never relapse from Some to None (no real view does; C08)".into(),
            "T::tanh of the harness build is the same libm function the crate reaches".into(),
        ]
    }
    fn design_ref(&self) -> &'static str {
        "DESIGN.md 3/C14"
    }
}
