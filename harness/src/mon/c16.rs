//! C16 — floating-point results track the exact result: no drift, no stale residue.
//!
//! Reference = exact arithmetic.  Windowed views: the exact batch oracle over the recent inputs (and,
//! on streams short enough, the same generic code at the exact scalar run in lock step).  Recursive
//! views on long streams: the reference model of C11 (or, for SuperSmoother/Roofing, a fresh f64
//! instance of the code) fed only the last S(N) inputs (no history => no accumulated drift; C09
//! bounds the truncation below 1e-12).
//! Drift clause: three-decade streams of 1e5 (quick) / 1e6 (thorough) values, output within 1e-6 of
//! natural scale of the reference at 200+ checkpoints and at every one of the last min(2N, 32) steps (f32:
//! 1e-2 on streams of 1e4).  Flat clause: volatile prefix, then N+1..3N identical values; within
//! 1e-4 of scale of the exact answer.

use super::c10::settle;
use super::{hash_str, mix, show_inputs};
use crate::dynview::{build_plain, Kind, Spec};
use crate::gen::{self, Class, Rng};
use crate::oracle::window::{self as ow, Ex};
use crate::report::{guarded, Cfg, Monitor, Tier, TrialOut};
use crate::scalar::Scalar;
use crate::xq::Xq;
use sliding_features::View;

pub struct C16;

#[derive(Clone, Copy, Debug, PartialEq)]
enum Scale {
    /// largest input magnitude so far (times a gain)
    Value(f64),
    /// width of the documented range
    Range(f64),
    /// max(1, |reference|)
    Dimensionless,
}

#[derive(Clone, Debug)]
struct V {
    name: &'static str,
    kind: Kind,
    scale: Scale,
    recursive: bool,
    /// named in the flat clause
    flat_named: bool,
}

const NAMES: [&str; 25] = [
    "Sma", "Cumulative", "Min", "Max", "WelfordOnline", "HLNormalizer", "Roc", "BinaryEntropy", "Vst", "Vsct", "Rsi", "MyRSI", "CorrelationTrendIndicator",
    "NoiseEliminationTechnology", "CenterOfGravity", "Alma", "Ema", "LaguerreFilter", "SuperSmoother", "RoofingFilter", "CyberCycle", "TrendFlex", "ReFlex", "LaguerreRSI", "Ema(alpha=1)",
];

fn view(i: usize, n: usize, rng: &mut Rng) -> V {
    let n1 = n.max(1);
    let n2 = n.max(2);
    let w = |name, kind, scale, recursive, flat_named| V { name, kind, scale, recursive, flat_named };
    let vb = (n2 as f64 - 1.0) / (n2 as f64).sqrt();
    match i {
        0 => w(NAMES[0], Kind::Sma(n1), Scale::Value(1.0), false, true),
        1 => w(NAMES[1], Kind::Cumulative(n1), Scale::Value(n1 as f64), false, false),
        2 => w(NAMES[2], Kind::Min(n1), Scale::Value(1.0), false, false),
        3 => w(NAMES[3], Kind::Max(n1), Scale::Value(1.0), false, false),
        4 => w(NAMES[4], Kind::Welford(n2), Scale::Value(1.0), false, true),
        5 => w(NAMES[5], Kind::HL(n2), Scale::Range(2.0), false, true),
        6 => w(NAMES[6], Kind::Roc(n1), Scale::Dimensionless, false, true),
        7 => w(NAMES[7], Kind::BinEnt(n1), Scale::Range(1.0), false, false),
        8 => w(NAMES[8], Kind::Vst(n2), Scale::Dimensionless, false, true),
        9 => w(NAMES[9], Kind::Vsct(n2), Scale::Range(2.0 * vb), false, true),
        10 => w(NAMES[10], Kind::Rsi(n1), Scale::Range(100.0), false, true),
        11 => w(NAMES[11], Kind::MyRsi(n1), Scale::Range(2.0), false, true),
        12 => w(NAMES[12], Kind::Cti(n.max(3)), Scale::Range(2.0), false, true),
        13 => w(NAMES[13], Kind::Net(n.max(3)), Scale::Range(2.0), false, true),
        14 => w(NAMES[14], Kind::Cog(n2), Scale::Dimensionless, false, false),
        15 => w(NAMES[15], Kind::Alma(n1), Scale::Value(1.0), false, true),
        16 => w(NAMES[16], Kind::Ema(n1), Scale::Value(1.0), true, true),
        17 => w(NAMES[17], Kind::LagFilter(*rng.pick(&[0.25, 0.5, 0.75, 0.9375, 0.998046875])), Scale::Value(1.0), true, false),
        18 => w(NAMES[18], Kind::SuperSmoother(n1), Scale::Value(1.0), true, false),
        19 => w(NAMES[19], Kind::Roofing(n2, *rng.pick(&[2usize, 5, 10])), Scale::Value(1.0), true, false),
        20 => w(NAMES[20], Kind::Cyber(n.max(3)), Scale::Value(1.0), true, true),
        21 => w(NAMES[21], Kind::TrendFlex(n2), Scale::Range(10.0), true, false),
        22 => w(NAMES[22], Kind::ReFlex(n2), Scale::Range(10.0), true, false),
        23 => w(NAMES[23], Kind::LagRsi(n2), Scale::Range(1.0), true, false),
        _ => w(NAMES[24], Kind::EmaAlpha(n1, 1.0), Scale::Value(1.0), true, false),
    }
}

/// exact value of a windowed view after the last element of `tail` (tail long enough to contain
/// the window and whatever a hold refers to)
fn exact_windowed(k: &Kind, tail: &[f64]) -> Option<f64> {
    // every reference evaluation stands alone (this monitor drives the code at f64 / f32 only and
    // keeps no exact-scalar handle between checks): release the exact scalar's arena, which
    // otherwise grows over the thousands of checks of one long trial to gigabytes per thread
    crate::xq::reset();
    let xq: Vec<Xq> = tail.iter().map(|x| Xq::of(*x)).collect();
    let t = xq.len() - 1;
    let direct = |f: fn(&[Xq]) -> Xq, n: usize| Ex::Val(f(ow::win(&xq, n)));
    let ex = match *k {
        // (only the last step is wanted: the definitions over the last window, not the whole sequence
        // over the tail, except where a hold refers further back)
        Kind::Rsi(n) if t + 1 >= n => {
            let (g, l) = ow::gains_losses(&xq, t, n);
            Ex::Val(if l == Xq::of(0.0) { Xq::of(100.0) } else { Xq::of(100.0) * g / (g + l) })
        }
        Kind::MyRsi(n) if t + 1 >= n && {
            let (g, l) = ow::gains_losses(&xq, t, n);
            g + l != Xq::of(0.0)
        } =>
        {
            let (g, l) = ow::gains_losses(&xq, t, n);
            Ex::Val((g - l) / (g + l))
        }
        Kind::Rsi(n) => ow::seq_rsi(&xq, n)[t],
        Kind::MyRsi(n) => ow::seq_myrsi(&xq, n)[t],
        Kind::Sma(n) => direct(ow::mean, n),
        Kind::Cumulative(n) => direct(ow::sum, n),
        Kind::Min(n) => direct(ow::min, n),
        Kind::Max(n) => direct(ow::max, n),
        Kind::Welford(n) => direct(ow::sample_std, n),
        Kind::HL(n) => direct(ow::hl, n),
        Kind::BinEnt(n) => direct(ow::entropy, n),
        Kind::Vst(n) => direct(ow::vst, n),
        Kind::Vsct(n) => direct(ow::vsct, n),
        Kind::Cti(n) => Ex::Val(ow::pearson_time(ow::win(&xq, n))),
        Kind::Net(n) => Ex::Val(ow::kendall_time(ow::win(&xq, n))),
        Kind::Cog(n) => Ex::Val(ow::cog(ow::win(&xq, n))),
        Kind::Alma(n) => Ex::Val(ow::alma_by_insertion(&xq, t, n, Xq::of(6.0), Xq::of(0.85))),
        _ => super::c02::reference(k, &xq)[t],
    };
    match ex {
        Ex::Val(v) => Some(v.f()),
        _ => None,
    }
}

fn tail_len(k: &Kind) -> usize {
    let n = k.n().unwrap_or(1);
    match k {
        // Alma's insertion-position reading needs the absolute position only up to N-1
        Kind::Alma(_) => 3 * n + 8,
        _ => 3 * n + 12,
    }
}

fn scale_of(s: Scale, big: f64, reference: f64) -> f64 {
    match s {
        Scale::Value(g) => big * g,
        Scale::Range(w) => w,
        Scale::Dimensionless => reference.abs().max(1.0),
    }
}

/// three-decade stream: values in [1, 1000], non-zero steps in [1/8, 100]
fn three_decades(len: usize, nice: bool, rng: &mut Rng) -> Vec<f64> {
    let mut v = Vec::with_capacity(len);
    let mut x: f64 = 100.0;
    for _ in 0..len {
        let step = if rng.chance(1, 5) { 0.0 } else { rng.range(-800, 800) as f64 / 8.0 };
        let mut y = x + step;
        if y < 1.0 {
            y = 1.0 + (1.0 - y).min(998.0);
        }
        if y > 1000.0 {
            y = 1000.0 - (y - 1000.0).min(998.0);
        }
        x = y;
        // "not nice": the same walk on a grid of tenths (not representable exactly)
        v.push(if nice { x } else { (x * 10.0).round() / 10.0 + 0.1 });
    }
    v
}

/// three-decade stream (values in [1, 1000], non-zero steps in [1/8, 100]) that sweeps across the range
/// in steps of 50..100 in a persistent direction and, every now and then, hovers for 10..40 values in
/// steps of exactly 1/8 up and down: whatever is maintained incrementally across the sweep (an extent, a sum) is divided by
/// something small during the hover
fn sweep_and_hover(len: usize, rng: &mut Rng) -> Vec<f64> {
    let mut v = Vec::with_capacity(len);
    let mut x = 500.0f64;
    let mut dir = 1.0f64;
    let mut hover = 0usize;
    for _ in 0..len {
        if hover > 0 {
            hover -= 1;
            // (off-grid steps: on the grid of eighths f32 arithmetic on these values is exact)
            // up and down by exactly 1/8 around an off-grid level: the narrowest window the stream allows
            let y = x + if hover % 2 == 0 { 0.125 } else { -0.125 };
            x = if (1.0..=1000.0).contains(&y) { y } else { x };
        } else {
            if rng.chance(1, 20) {
                hover = rng.usize(10, 40);
            }
            let step = 50.0 + 50.0 * rng.unit53();
            let y = x + dir * step;
            if !(1.0..=1000.0).contains(&y) {
                dir = -dir;
                x += dir * step;
            } else {
                x = y;
            }
            x = x.clamp(1.0, 1000.0);
        }
        v.push(x);
    }
    v
}

/// three-decade stream that leaves its first value far behind: from 1 up to 1000 in steps of 1, then
/// a walk inside [990, 1000] with steps of 0.001 .. 0.017 (non-zero steps within three decades)
fn climb_then_hover(len: usize, rng: &mut Rng) -> Vec<f64> {
    let mut v = Vec::with_capacity(len);
    let mut x = 1.0f64;
    for i in 0..len {
        if i > 0 && i < 1000 {
            x += 1.0;
        } else if i >= 1000 {
            // (decimal steps: on a dyadic grid the sums of squares would be exact and nothing drifts)
            let s = (0.001 + 0.016 * rng.unit53()) * if rng.coin() { 1.0 } else { -1.0 };
            let y = x + s;
            x = if (990.0..=1000.0).contains(&y) { y } else { x - s };
        }
        v.push(x);
    }
    v
}

/// windowed views that recompute over the window: also run at windows of 300 and 520 on the longest
/// streams (a block size or a switch to running sums above some window length shows only there)
/// (CTI five times, CoG three times: quotients of sums of products, where a cancellation shows first)
const LARGE_VIEWS: [usize; 20] = [0, 1, 2, 3, 4, 5, 6, 7, 10, 11, 12, 14, 15, 16, 12, 12, 12, 12, 14, 14];

/// PolarizedFractalEfficiency / EhlersFisherTransform (they take a moving average and are not part of
/// the 25-view table): driven at `T`, compared at the steps `when` selects with the C11 reference
/// model restarted on the last N + 400 inputs (windowed stage, smoother and the Fisher recursion's
/// factor 1/2 have all faded by then), in units of the width of the documented range
/// flat clause at f32 with windows of 400..1024: the views the clause names whose update does not cost O(N^2)
const LARGE32_VIEWS: [usize; 10] = [0, 5, 6, 10, 11, 15, 16, 20, 20, 20];

fn host_trial<T: Scalar>(host: crate::dynview::MaK, n: usize, ma: crate::oracle::ehlers::RefMa, xs: &[f64], clause: &'static str, tol: f64, when: impl Fn(usize) -> bool, out: &mut TrialOut) {
    use crate::dynview::MaK;
    use crate::oracle::ehlers::{self as oe, RefMa};
    let ma_spec = match ma {
        RefMa::Echo => Spec::Echo,
        RefMa::Sma(k) => Spec::leaf(Kind::Sma(k)),
        RefMa::Ema(k) => Spec::leaf(Kind::Ema(k)),
    };
    let spec = Spec::ma(host, n, Spec::Echo, ma_spec);
    let (name, scale) = if host == MaK::Pfe { ("PolarizedFractalEfficiency", 2.0) } else { ("EhlersFisherTransform", 2.0 * 199f64.ln()) };
    let Ok(mut inst) = guarded(|| build_plain::<T>(&spec)) else { return };
    let cell = format!("{}/{}/{}", name, clause, T::NAME);
    for t in 0..xs.len() {
        let Ok(got) = guarded(|| {
            inst.update(T::of(xs[t]));
            inst.last()
        }) else {
            out.count("trials_ended_by_panic_of_code_under_test(C15)", 1);
            return;
        };
        if !when(t) {
            continue;
        }
        let tail = &xs[(t + 1).saturating_sub(n + 400)..=t];
        let e = if host == MaK::Pfe { oe::pfe(tail, n, ma).last().copied().flatten() } else { oe::fisher(tail, n, ma).last().copied().flatten() };
        let (Some(g), Some(e)) = (got, e) else { continue };
        out.cell(&cell, 1);
        let dev = (g.f() - e).abs() / scale;
        out.maxi(&format!("max_deviation_over_scale/{}/{}/{}", clause, T::NAME, name), if dev.is_finite() { dev } else { f64::MAX });
        if !(dev <= tol) {
            // a Sma in the smoother slot keeps a running sum (known finding of C07): an efficiency
            // of 1e13 (a jump of that size on the oldest step of a window) that has left it leaves
            // eps x 1e13 behind
            let mut pred = "any";
            if let (true, RefMa::Sma(_)) = (host == MaK::Pfe, ma) {
                let raw_max = oe::pfe(&xs[..=t], n, RefMa::Echo).iter().flatten().fold(0f64, |m, r| m.max(r.abs()));
                if (g.f() - e).abs() <= 64.0 * T::EPS * raw_max {
                    pred = "excess_le_running_sum_residue_of_the_sma_in_the_smoother_slot";
                }
            }
            out.violation(
                name,
                clause,
                pred,
                format!("{} at {}: step {} of {}: output {:e}, reference model restarted on the last {} inputs {:e}: deviation {:e} of natural scale {:e} exceeds {:e}\n{}", spec.show(), T::NAME, t, xs.len(), g.f(), tail.len(), e, dev, scale, tol, show_inputs(xs, t, n + 10)),
            );
            return;
        }
    }
}

struct Ctx<'a> {
    v: &'a V,
    clause: &'static str,
    tol: f64,
}

fn reference_at<T: Scalar>(v: &V, xs: &[f64], t: usize, got: f64) -> Option<f64> {
    if v.recursive {
        // restart on the last S(N) inputs: no history => no accumulated drift.  Where the reference
        // model of C11 uses literally the same constants as the statement (everything but the
        // SuperSmoother / RoofingFilter pair with its 4.4422 spelling), it is the *reference model*
        // that is restarted, so that a defect which needs only a few thousand inputs (stale residue
        // after a volatile stretch) cannot contaminate the reference; otherwise a fresh instance of
        // the code
        let s = settle(&v.kind) + 8;
        let from = (t + 1).saturating_sub(s);
        let tail = &xs[from..=t];
        use crate::oracle::ehlers as oe;
        let by_model: Option<Option<f64>> = match v.kind {
            Kind::Ema(n) => Some(match crate::oracle::window::seq_ema(tail, n, 2.0).last() {
                Some(Ex::Val(x)) if tail.len() >= n => Some(*x),
                _ => None,
            }),
            Kind::EmaAlpha(n, a) => Some(match crate::oracle::window::seq_ema(tail, n, a).last() {
                Some(Ex::Val(x)) if tail.len() >= n => Some(*x),
                _ => None,
            }),
            Kind::LagFilter(g) => Some(oe::laguerre_filter(tail, g).last().copied().flatten()),
            Kind::Cyber(n) => Some(oe::cyber_cycle(tail, n).last().copied().flatten()),
            Kind::TrendFlex(n) => Some(oe::trend_flex(tail, n).last().and_then(|(o, _)| *o)),
            Kind::ReFlex(n) => Some(oe::re_flex(tail, n).last().and_then(|(o, _)| *o)),
            Kind::LagRsi(n) => Some(oe::laguerre_rsi(tail, n).last().and_then(|(o, _)| *o)),
            _ => None,
        };
        if let Some(r) = by_model {
            return r;
        }
        guarded(|| {
            let mut f = build_plain::<f64>(&Spec::leaf(v.kind));
            for x in tail {
                f.update(*x);
            }
            f.last()
        })
        .ok()
        .flatten()
    } else {
        // CTI is a correlation (and has a reference) only once its window is full (C06)
        if let Kind::Cti(n) = v.kind {
            if t + 1 < n {
                return None;
            }
        }
        let from = (t + 1).saturating_sub(tail_len(&v.kind));
        // Alma: absolute insertion positions matter only while the stream is shorter than 2N-1
        if let Kind::Alma(n) = v.kind {
            if t + 1 < 3 * n + 8 {
                // (both admitted weight assignments here too: they differ most while the stream is short)
                let a = exact_windowed(&v.kind, &xs[..=t])?;
                let xq: Vec<Xq> = xs[..=t].iter().map(|x| Xq::of(*x)).collect();
                let b = ow::alma_by_position(ow::win(&xq, n), n, Xq::of(6.0), Xq::of(0.85)).f();
                return Some(if (got - b).abs() < (got - a).abs() { b } else { a });
            }
            // long history: every weight in the window is g(N-1): feed a tail whose first N-1
            // positions have already left the window
        }
        let e = exact_windowed(&v.kind, &xs[from..=t]);
        if let (Kind::Alma(n), Some(a)) = (v.kind, e) {
            // the statements admit two weight assignments (DESIGN.md section 6): the closer one
            let xq: Vec<Xq> = xs[from..=t].iter().map(|x| Xq::of(*x)).collect();
            let b = ow::alma_by_position(ow::win(&xq, n), n, Xq::of(6.0), Xq::of(0.85)).f();
            return Some(if (got - b).abs() < (got - a).abs() { b } else { a });
        }
        e
    }
}

fn check<T: Scalar>(cx: &Ctx, xs: &[f64], t: usize, got: Option<T>, big: f64, out: &mut TrialOut) -> bool {
    let v = cx.v;
    let Some(g) = got else { return true };
    let Some(e) = reference_at::<T>(v, xs, t, g.f()) else {
        out.count("checkpoints_without_reference(hold with nothing to hold)", 1);
        return true;
    };
    let scale = scale_of(v.scale, big, e);
    let cell = format!("{}/{}/{}", v.name, cx.clause, T::NAME);
    out.cell(&cell, 1);
    let dev = (g.f() - e).abs() / scale;
    out.maxi(&format!("max_deviation_over_scale/{}/{}{}/{}", cx.clause, if v.kind.n().unwrap_or(0) >= 300 { "N>=300/" } else { "" }, T::NAME, v.name), if dev.is_finite() { dev } else { f64::MAX });
    if !(dev <= cx.tol) {
        let n = v.kind.n().unwrap_or(1);
        let mut pred = if matches!(v.kind, Kind::Vst(_) | Kind::Vsct(_)) && super::welford_residue_explains(&v.kind, xs, t, g.f(), T::EPS) { "explained_by_running_m2_rounding_residue" } else { "any" };
        if let Kind::LagRsi(n) = v.kind {
            // CU / (CU + CD): the four stages carry a few ulps of the level each; where CU + CD is
            // small against the level that rounding alone moves the quotient by eps x level / (CU + CD)
            let s = settle(&v.kind) + 8;
            let tail = &xs[(t + 1).saturating_sub(s)..=t];
            if let Some((_, den)) = crate::oracle::ehlers::laguerre_rsi(tail, n).last() {
                if (g.f() - e).abs() * *den <= 16.0 * T::EPS * big {
                    pred = "deviation_le_16_eps_level_over_CU_plus_CD";
                }
            }
        }
        if let (Kind::Welford(_), true, "flat") = (v.kind, e == 0.0, cx.clause) {
            // sqrt of the running m2's rounding residue: each update perturbs m2 by O(eps x level x
            // spread) (a running sum of squares would be perturbed by eps x level^2)
            let lo = xs[..=t].iter().fold(f64::MAX, |m, x| m.min(*x));
            let hi = xs[..=t].iter().fold(f64::MIN, |m, x| m.max(*x));
            let unit = T::EPS * big * (hi - lo) * ((t + 1) as f64).sqrt();
            out.maxi(&format!("welford_flat_var_residue_over_eps_level_spread_sqrt_steps/{}", T::NAME), g.f() * g.f() / unit);
            if g.f() * g.f() <= 4.0 * unit {
                pred = "std_is_sqrt_of_m2_residue_le_4_eps_level_spread_sqrt_steps";
            }
        }
        out.violation(
            v.name,
            cx.clause,
            pred,
            format!(
                "{} at {}: step {} of {}: output {:e}, exact-arithmetic reference {:e}: deviation {:e} of natural scale {:e} exceeds {:e}\n{}",
                Spec::leaf(v.kind).show(),
                T::NAME,
                t,
                xs.len(),
                g.f(),
                e,
                dev,
                scale,
                cx.tol,
                show_inputs(xs, t, n + 10)
            ),
        );
        return false;
    }
    true
}

fn drift<T: Scalar>(v: &V, xs: &[f64], out: &mut TrialOut) {
    let cx = Ctx { v, clause: "drift", tol: if T::NAME == "f32" { 1e-2 } else { 1e-6 } };
    let Ok(mut inst) = guarded(|| build_plain::<T>(&Spec::leaf(v.kind))) else { return };
    let n = v.kind.n().unwrap_or(1);
    // 200 checkpoints; on the short f32 streams 1000, and every step for windows up to 16 (an error
    // that shows only while the window is narrow is short-lived)
    let every = if T::NAME == "f32" && n <= 16 { 1 } else { (xs.len() / if T::NAME == "f32" { 1000 } else { 200 }).max(1) };
    let mut big = 0f64;
    for t in 0..xs.len() {
        big = big.max(xs[t].abs());
        let Ok(got) = guarded(|| {
            inst.update(T::of(xs[t]));
            inst.last()
        }) else {
            out.count("trials_ended_by_panic_of_code_under_test(C15)", 1);
            return;
        };
        // (and every step around the 65 536th and 131 072nd value: a position kept in 16 bits wraps there)
        if t % every == every - 1 || t + (2 * n).min(32) >= xs.len() || (65_500..65_600).contains(&t) || (131_040..131_140).contains(&t) {
            if !check(&cx, xs, t, got, big, out) {
                return;
            }
        }
    }
    out.maxi("longest_stream", xs.len() as f64);
}

fn flat<T: Scalar>(v: &V, prefix: &[f64], c: f64, flat_len: usize, first_read: usize, out: &mut TrialOut) {
    // the statement's 1e-4 carries no scalar qualifier: it is applied as written to the views the flat
    // clause names; for the others (whose flat-window answer is the reference's decaying transient)
    // f32 gets the only f32 figure the statement gives
    let cx = Ctx { v, clause: "flat", tol: if T::NAME == "f32" && !v.flat_named { 1e-2 } else { 1e-4 } };
    let Ok(mut inst) = guarded(|| build_plain::<T>(&Spec::leaf(v.kind))) else { return };
    let n = v.kind.n().unwrap_or(1);
    let mut xs = prefix.to_vec();
    xs.extend(std::iter::repeat(c).take(flat_len));
    let mut big = 0f64;
    // half of the trials read the view only where it is checked (the flat window's answer must not
    // depend on the view having been read during the volatile stretch)
    let read_only_where_checked = (gen::hash_f64s(prefix) ^ flat_len as u64) % 2 == 0;
    if read_only_where_checked {
        out.count("flat_trials_read_only_where_checked", 1);
    }
    for t in 0..xs.len() {
        big = big.max(xs[t].abs());
        // from the moment the window (N values, N+1 for the change-based views) is flat
        // long flat stretches are sampled (every 41st step and the last five), short ones checked
        // at every step
        let sampled = flat_len <= 200 || (t.wrapping_sub(prefix.len())) % 41 == 0 || t + 5 >= xs.len();
        let checked = t >= prefix.len() + n.max(first_read) && sampled;
        let Ok(got) = guarded(|| {
            inst.update(T::of(xs[t]));
            if checked || !read_only_where_checked {
                inst.last()
            } else {
                None
            }
        }) else {
            out.count("trials_ended_by_panic_of_code_under_test(C15)", 1);
            return;
        };
        if checked {
            out.count("flat_window_steps_checked", 1);
            if !check(&cx, &xs, t, got, big, out) {
                return;
            }
        }
    }
}

fn ns(cfg: &Cfg) -> Vec<usize> {
    match cfg.tier {
        Tier::Quick => vec![2, 3, 5, 9, 20, 50],
        Tier::Thorough => vec![1, 2, 3, 4, 5, 6, 7, 8, 9, 12, 16, 20, 32, 50, 64, 100],
    }
}

impl Monitor for C16 {
    fn id(&self) -> &'static str {
        "C16"
    }
    fn plan(&self, cfg: &Cfg) -> u64 {
        (25 * ns(cfg).len()) as u64 * cfg.tier.pick(6, 48) + LARGE_VIEWS.len() as u64 * cfg.tier.pick(1, 12) + 48 * cfg.tier.pick(1, 12) + LARGE32_VIEWS.len() as u64 * cfg.tier.pick(1, 12)
    }
    fn trial(&self, cfg: &Cfg, idx: u64, out: &mut TrialOut) {
        let nl = ns(cfg);
        let mut rng = Rng::for_trial(cfg.seed, "C16", idx);
        let main = (25 * nl.len()) as u64 * cfg.tier.pick(6, 48);
        let large = LARGE_VIEWS.len() as u64 * cfg.tier.pick(1, 12);
        let hosts = 48 * cfg.tier.pick(1, 12);
        if idx >= main + large + hosts {
            // large windows at f32, flat clause: a volatile stretch of several windows, then 4N..10N
            // copies of a value with a full mantissa (a recursion whose state is rounded to a grid as
            // coarse as ulp(level) stops decaying inside a dead band that widens with N^2)
            let j = idx - main - large - hosts;
            let vi = LARGE32_VIEWS[(j % LARGE32_VIEWS.len() as u64) as usize];
            let n = if matches!(vi, 16 | 20) { *rng.pick(&[520usize, 800, 1024]) } else { *rng.pick(&[400usize, 520, 1024]) };
            let v = view(vi, n, &mut rng);
            let plen = rng.usize(2 * n + 5, 4 * n);
            let prefix: Vec<f64> = three_decades(plen, rng.coin(), &mut rng).iter().map(|x| (*x as f32) as f64).collect();
            // (the recursive ones are held near the top of the range: a dead band is a fraction of the held level)
            let c = (if v.recursive { *rng.pick(&[977.77, 823.45, 612.345]) } else { *rng.pick(&[123.456, 1000.0 / 3.0, 0.1, 7.3, 977.77]) } as f32) as f64;
            let flat_len = if v.recursive { rng.usize(8 * n + 200, 10 * n) } else { rng.usize(4 * n + 200, 6 * n) };
            out.key(mix(hash_str(&format!("large32{:?}{}", v.kind, flat_len)), gen::hash_f64s(&prefix[prefix.len() - 64..])));
            out.count("large_window_flat_trials_at_f32", 1);
            if j % 4 == 0 {
                out.sample(format!("flat: {} at f32 after a three-decade prefix of {} values, then {} x {:?}", Spec::leaf(v.kind).show(), plen, flat_len, c));
            }
            // (8N..10N identical values, read from the 8N-th on, for the recursive ones: the error an f32 recursion with
            // a time constant of N/2 steps has gathered over the volatile stretch - up to 6e-3 of the level
            // at N = 1024 on the unchanged code, inside the 1e-2 of the drift clause - has not decayed
            // before that)
            flat::<f32>(&v, &prefix, c, flat_len, if v.recursive { 8 * n - 40 } else { 0 }, out);
            return;
        }
        if idx >= main + large {
            // the two views that take a moving average: 2 hosts x 3 smoothers x (drift, flat x 3) x (f64, f32)
            use crate::dynview::MaK;
            use crate::oracle::ehlers::RefMa;
            let j = idx - main - large;
            let host = if j % 2 == 0 { MaK::Pfe } else { MaK::Eft };
            let ma = [RefMa::Echo, RefMa::Sma(3), RefMa::Ema(4)][((j / 2) % 3) as usize];
            let clause = (j / 6) % 4;
            let f32_run = (j / 24) % 2 == 1;
            let n = rng.usize(3, 40);
            out.key(mix(hash_str(&format!("host{:?}{:?}{}{}{}", host, ma, clause, f32_run, n)), rng.clone().next()));
            if clause == 0 {
                let len = if f32_run { 10_000 } else { cfg.tier.pick(30_000usize, 200_000) };
                let xs = three_decades(len, rng.coin(), &mut rng);
                let xs: Vec<f64> = if f32_run { xs.iter().map(|x| (*x as f32) as f64).collect() } else { xs };
                let every = (len / 100).max(1);
                let when = |t: usize| t % every == every - 1 || t + 16 >= len;
                if f32_run {
                    host_trial::<f32>(host, n, ma, &xs, "drift", 1e-2, when, out)
                } else {
                    host_trial::<f64>(host, n, ma, &xs, "drift", 1e-6, when, out)
                }
            } else {
                // volatile prefix (three decades, or generic values times 2^0..2^20, or - at f64 - times
                // 2^36..2^50), then N+1..3N copies of one value
                let plen = rng.usize(3 * n + 5, 20 * n + 200);
                let mut prefix = if clause == 1 { three_decades(plen, rng.coin(), &mut rng) } else { gen::gen(*rng.pick(&[Class::Uniform, Class::Spike, Class::Blocks]), n, plen, &mut rng) };
                if clause >= 2 {
                    let e = if clause == 3 && !f32_run { rng.range(36, 50) } else { rng.range(0, 20) };
                    for x in prefix.iter_mut() {
                        *x *= 2f64.powi(e as i32);
                    }
                }
                let c = *rng.pick(&[1.0, 1000.0, 0.125, 0.1, 1.0 / 3.0, 123.456, 7.0, 0.0]);
                let flat_len = n + 1 + rng.usize(0, 2 * n);
                let mut xs = prefix.clone();
                xs.extend(std::iter::repeat(c).take(flat_len));
                let xs: Vec<f64> = if f32_run { xs.iter().map(|x| (*x as f32) as f64).collect() } else { xs };
                let from = plen + n;
                let when = |t: usize| t >= from;
                out.count("flat_trials_of_views_with_a_moving_average", 1);
                if f32_run {
                    host_trial::<f32>(host, n, ma, &xs, "flat", 1e-2, when, out)
                } else {
                    host_trial::<f64>(host, n, ma, &xs, "flat", 1e-4, when, out)
                }
            }
            return;
        }
        if idx >= main {
            // large windows, 10^6 values (f64), drift clause
            let j = idx - main;
            let vi = LARGE_VIEWS[(j % LARGE_VIEWS.len() as u64) as usize];
            let n = *rng.pick(&[300usize, 400, 520]);
            let v = view(vi, n, &mut rng);
            let hover = j % LARGE_VIEWS.len() as u64 >= 14 || rng.chance(2, 3);
            let len = 1_000_000;
            let xs = if hover { climb_then_hover(len, &mut rng) } else { three_decades(len, rng.coin(), &mut rng) };
            out.key(mix(hash_str(&format!("large{:?}{}", v.kind, hover)), gen::hash_f64s(&xs[xs.len() - 64..])));
            out.count("large_window_trials_of_1e6_values", 1);
            if j % 5 == 0 {
                out.sample(format!("drift: {} on {} values ({}), 200 checkpoints + the last min(2N, 32) steps", Spec::leaf(v.kind).show(), len, if hover { "climb from 1 to 1000, then a walk inside [990, 1000] with steps of 0.001..0.017" } else { "three-decade walk" }));
            }
            drift::<f64>(&v, &xs, out);
            return;
        }
        let vi = (idx % 25) as usize;
        let n = nl[((idx / 25) % nl.len() as u64) as usize];
        let n = super::jitter_n(cfg, n, 2, 50, &mut rng);
        let rep = idx / (25 * nl.len() as u64);
        let v = view(vi, n, &mut rng);
        // f32: repetitions 6, 7 of every 8 in thorough; 4, 5 of 6 in quick
        let f32_run = if cfg.tier == Tier::Thorough { rep % 8 >= 6 } else { rep >= 4 };
        out.key(mix(hash_str(&format!("{:?}{}{}", v.kind, rep, f32_run)), rng.clone().next()));
        if rep % 2 == 0 {
            // drift clause
            let nice = rep % 4 == 0;
            let per_update = 1 + v.kind.n().unwrap_or(1) / 24; // O(N) views get shorter streams
            let len = if f32_run { 10_000 } else { cfg.tier.pick(100_000usize, 1_000_000) / per_update / if v.recursive && cfg.tier == Tier::Quick { 4 } else { 1 } };
            // (half of the f32 and a quarter of the f64 drift streams sweep and hover)
            let sweeping = rng.chance(if f32_run { 2 } else { 1 }, 4);
            let xs = if sweeping { sweep_and_hover(len, &mut rng) } else { three_decades(len, nice, &mut rng) };
            if sweeping {
                out.count("drift_streams_that_sweep_and_hover", 1);
            }
            if idx % 41 == 0 {
                out.sample(format!("drift: {} on a three-decade stream of {} values ({}), 200 checkpoints + the last min(2N, 32) steps", Spec::leaf(v.kind).show(), len, if nice { "dyadic grid" } else { "grid of tenths" }));
            }
            if f32_run {
                let xs32: Vec<f64> = xs.iter().map(|x| (*x as f32) as f64).collect();
                drift::<f32>(&v, &xs32, out)
            } else {
                drift::<f64>(&v, &xs, out)
            }
        } else {
            // flat clause
            let wide = rep % 4 == 3;
            let mut plen = rng.usize(3 * n + 5, 40 * n + 200);
            // a third of the prefixes sits at a high level with a small spread (the residue of a sum
            // of squares scales with the level, that of a sum of deviations with the spread)
            // (f32: windowed views only - a recursive ratio view fed 1000 +- 0.06 in f32, where one ulp is
            // 6e-5, divides quantities that vanish into the last bits)
            let narrow = !wide && !(f32_run && v.recursive) && rng.chance(if f32_run { 2 } else { 1 }, 3);
            if narrow && f32_run {
                plen = rng.usize(1000, 3000);
            }
            let level = *rng.pick(&[1000.0, 250.0, 12345.0]);
            let spread = *rng.pick(&[0.125, 1.0]);
            let mut prefix = if wide {
                gen::gen(*rng.pick(&[Class::Uniform, Class::Spike, Class::Blocks]), n, plen, &mut rng)
            } else if narrow {
                (0..plen).map(|_| level + spread * (rng.unit53() - 0.5)).collect()
            } else {
                three_decades(plen, rng.coin(), &mut rng)
            };
            if wide {
                let s = 2f64.powi(rng.range(0, 20) as i32);
                for x in prefix.iter_mut() {
                    *x *= s;
                }
            }
            let mut c = *rng.pick(&[1.0, 1000.0, 0.125, 0.1, 1.0 / 3.0, 123.456, 7.0, 0.0]);
            if c == 0.0 && matches!(v.kind, Kind::Roc(_)) {
                c = 7.0;
            }
            if narrow {
                c = level + spread * 0.5;
            }
            // mostly N+1..3N identical values; one flat trial in four holds the value for thousands of
            // updates (stale residue that is amplified slowly, by a decaying normaliser, shows only then)
            // (not for LaguerreRSI: CU/(CU+CD) of four stages that converge to the same value is a
            // ratio of vanishing quantities for which the statement makes no flat-window claim)
            // (nor, in f32, for TrendFlex / ReFlex: slope / rms of a filter that has converged to the held
            // value to the last bit is 0 / (decaying) there, while the exact ratio of the two vanishing
            // quantities tends to a non-zero constant)
            let ratio32 = f32_run && matches!(v.kind, Kind::TrendFlex(_) | Kind::ReFlex(_));
            let flat_len = if rng.chance(1, 4) && !matches!(v.kind, Kind::LagRsi(_)) && !ratio32 { rng.usize(1500, 3000) } else { n + 1 + rng.usize(0, 2 * n) };
            if idx % 43 == 0 {
                out.sample(format!("flat: {} after a {} prefix of {} values, then {} x {:?}", Spec::leaf(v.kind).show(), if wide { "wide-range" } else { "three-decade" }, plen, flat_len, c));
            }
            if f32_run {
                let p32: Vec<f64> = prefix.iter().map(|x| (*x as f32) as f64).collect();
                flat::<f32>(&v, &p32, (c as f32) as f64, flat_len, 0, out)
            } else {
                flat::<f64>(&v, &prefix, c, flat_len, 0, out)
            }
        }
    }
    fn required_cells(&self, _cfg: &Cfg) -> Vec<String> {
        let mut v = vec![];
        let mut rng = Rng::new(1);
        for i in 0..25 {
            let w = view(i, 5, &mut rng);
            v.push(format!("{}/drift/f64", w.name));
            if w.flat_named {
                v.push(format!("{}/flat/f64", w.name));
                v.push(format!("{}/flat/f32", w.name));
            }
        }
        for h in ["PolarizedFractalEfficiency", "EhlersFisherTransform"] {
            v.push(format!("{}/drift/f64", h));
            v.push(format!("{}/flat/f64", h));
            v.push(format!("{}/flat/f32", h));
        }
        v
    }
    fn rule(&self) -> String {
        "trial = (one of 25 views, or PolarizedFractalEfficiency / EhlersFisherTransform over Echo, Sma(3) or Ema(4) (48 trials per repetition: drift, and flat after a three-decade prefix, a prefix x 2^0..2^20 and - at f64 - a prefix x 2^36..2^50; reference: the C11 model restarted on the last N + 400 inputs); N; clause; value grid dyadic or tenths; scalar f64 or f32). drift: three-decade stream (values in [1,1000], non-zero steps in [1/8,100]) of 1e5 (quick) / 1e6 (thorough) values (shorter for O(N)-per-update and recursive views), plus, in both tiers, 20 trials of 14 windowed views (CTI five, CoG three times) at N in {300, 400, 520} on 1e6 values (two thirds of them on a stream that climbs from 1 to 1000 and then walks inside [990,1000] with steps of 0.001..0.017), f64 output vs exact reference at 200 checkpoints, every step around the 65 536th and 131 072nd value and each of the last min(2N, 32) steps, 1e-6 of natural scale (f32: 1e-2, 1e4 values). flat: three-decade or wide-range (x 2^0..2^20) volatile prefix then N+1..3N copies of c in {1, 1000, 1/8, 0.1, 1/3, 123.456, 7, 0}, every step whose window is flat, 1e-4 of scale (f32: 1e-4 for the views the statement names, 1e-2 for the others; a third of the prefixes - two thirds, 1000..3000 values long, for windowed views at f32 - sit at a high level with a small spread: 1000 / 250 / 12345 +- 1/16 or 1/2). In both tiers 10 flat trials at f32 with N in {400, 520, 800, 1024} (Sma, HLNormalizer, Roc, Rsi, MyRSI, Alma, Ema, CyberCycle x 3): three-decade prefix of 2N..4N values, then 4N..6N identical values read at every 41st step (Ema, CyberCycle: 8N..10N values held at 612..978, read from the 8N-th on). Reference: exact batch oracle over the recent inputs for windowed views; the C11 reference model (SuperSmoother/Roofing: a fresh f64 instance of the code) restarted on the last S(N) inputs for recursive ones. distinct = distinct (view, N, clause, scalar, stream)".into()
    }
    fn assumptions(&self) -> Vec<String> {
        vec![
            "natural scale: largest input magnitude so far (x N for Cumulative) for value-like outputs, width of the documented range for bounded indicators, max(1,|reference|) for Vst, Roc, CoG".into(),
            "WelfordRolling's drift is decided by C13 (exact integer sums, streams to 1e7)".into(),
            "fresh-restart reference is sound because C09 bounds the influence of anything older than S(N) below 1e-12".into(),
        ]
    }
    fn design_ref(&self) -> &'static str {
        "DESIGN.md 3/C16"
    }
}
