//! C10 — linear views obey superposition; constant clauses of the low-pass / high-pass members.

use super::{hash_str, mix, show_inputs};
use crate::dynview::{build_plain, Kind, Spec};
use crate::gen::{self, Class, Rng};
use crate::report::{guarded, Cfg, Monitor, Tier, TrialOut};
use crate::scalar::{show_opt, Scalar};
use crate::xq::Xq;
use sliding_features::View;

pub struct C10;

pub const NAMES: [&str; 8] = ["Sma", "Ema", "Alma", "Cumulative", "LaguerreFilter", "SuperSmoother", "RoofingFilter", "CyberCycle"];
const GAMMAS: [f64; 6] = [0.0, 0.25, 0.5, 0.75, 0.8125, 0.9375];

pub fn kind(vi: usize, n: usize, rng: &mut Rng) -> Kind {
    match vi {
        0 => Kind::Sma(n),
        1 => {
            if rng.coin() {
                Kind::Ema(n)
            } else {
                // (also weights alpha / (N + 1) of exactly 1 and of 1.25: still a stable linear filter)
                Kind::EmaAlpha(n, *rng.pick(&[0.5, 1.0, (n + 1) as f64, 1.25 * (n + 1) as f64]))
            }
        }
        2 => {
            if rng.coin() {
                Kind::Alma(n)
            } else {
                Kind::AlmaCustom(n, *rng.pick(&[2.0, 6.0]), *rng.pick(&[0.5, 0.85, 1.0]))
            }
        }
        3 => Kind::Cumulative(n),
        4 => Kind::LagFilter(*rng.pick(&GAMMAS)),
        5 => Kind::SuperSmoother(n),
        6 => Kind::Roofing(n.max(2), *rng.pick(&[1usize, 2, 3, 8])),
        _ => Kind::Cyber(n.max(3)),
    }
}

/// pole radius of the slowest mode (reference model, from the statement's closed forms)
pub fn pole_radius(k: &Kind) -> f64 {
    let th = |n: usize| 1.414 * std::f64::consts::PI / n as f64;
    match *k {
        Kind::Ema(n) => (1.0 - 2.0 / (n as f64 + 1.0)).abs(),
        Kind::EmaAlpha(n, a) => (1.0 - a / (n as f64 + 1.0)).abs(),
        Kind::LagFilter(g) => g.abs(),
        Kind::SuperSmoother(n) => (-th(n)).exp(),
        Kind::Roofing(n, m) => {
            let t = th(n);
            let alpha = (t.cos() + t.sin() - 1.0) / t.cos();
            (1.0 - alpha).abs().max((-th(m)).exp())
        }
        Kind::Cyber(n) | Kind::LagRsi(n) => 1.0 - 2.0 / (n as f64 + 1.0),
        Kind::TrendFlex(n) | Kind::ReFlex(n) => (-8.88442402435 / n as f64).exp().max(0.96f64.sqrt()),
        _ => 0.0,
    }
}
/// steps after which the influence of anything older has decayed below 1e-12 (with margin 3)
pub fn settle(k: &Kind) -> usize {
    let rho = pole_radius(k).min(0.999999);
    let window = match *k {
        Kind::Roofing(n, m) => n + m + 2,
        _ => k.n().unwrap_or(1),
    };
    let decay = if rho <= 1e-9 { 4 } else { 3 * ((1e-12f64).ln() / rho.ln()).ceil() as usize + 4 };
    window + decay
}

fn drive<T: Scalar>(k: Kind, xs: &[T]) -> Option<Vec<Option<T>>> {
    let r = guarded(|| {
        let mut v = build_plain::<T>(&Spec::leaf(k));
        xs.iter()
            .map(|x| {
                v.update(*x);
                v.last()
            })
            .collect::<Vec<_>>()
    });
    match r {
        Ok(v) => Some(v),
        Err(m) => {
            if m.starts_with("XQ-BLOWN") {
                std::panic::resume_unwind(Box::new(m));
            }
            None
        }
    }
}

fn superposition<T: Scalar>(k: Kind, xs: &[f64], ys: &[f64], a: f64, b: f64, out: &mut TrialOut) {
    let cell = format!("{}/superposition/{}", k.name(), T::NAME);
    let xt: Vec<T> = xs.iter().map(|x| T::of(*x)).collect();
    let yt: Vec<T> = ys.iter().map(|x| T::of(*x)).collect();
    let (ta, tb) = (T::of(a), T::of(b));
    let zt: Vec<T> = xt.iter().zip(yt.iter()).map(|(x, y)| ta * *x + tb * *y).collect();
    let (Some(ox), Some(oy), Some(oz)) = (drive(k, &xt), drive(k, &yt), drive(k, &zt)) else {
        out.count("trials_ended_by_panic_of_code_under_test(C15)", 1);
        return;
    };
    let mx = xs.iter().fold(0f64, |m, v| m.max(v.abs()));
    let my = ys.iter().fold(0f64, |m, v| m.max(v.abs()));
    let gain = match k {
        Kind::Cumulative(n) => n as f64,
        Kind::Roofing(..) | Kind::Cyber(_) => 8.0,
        Kind::AlmaCustom(..) | Kind::Alma(_) => 64.0,
        _ => 2.0,
    };
    for t in 0..xs.len() {
        let ok = match (ox[t], oy[t], oz[t]) {
            (None, None, None) => continue,
            (Some(p), Some(q), Some(r)) => {
                let e = ta * p + tb * q;
                if zt[t].f() == 0.0 {
                    out.count("steps_where_combined_input_is_exactly_0", 1);
                }
                if T::EXACT {
                    r.same(e)
                } else {
                    let env = 64.0 * f64::EPSILON * (t + 1) as f64 * gain * (a.abs() * mx + b.abs() * my) + 1e-300;
                    (r.f() - e.f()).abs() <= env
                }
            }
            _ => false,
        };
        out.cell(&cell, 1);
        if !ok {
            out.violation(
                k.name(),
                "superposition",
                "any",
                format!(
                    "{} at {}: step {}: view(a x + b y) = {} but a view(x) + b view(y) with a = {:?}, b = {:?}, view(x) = {}, view(y) = {}\nx: {}\ny: {}",
                    Spec::leaf(k).show(),
                    T::NAME,
                    t,
                    show_opt(oz[t]),
                    a,
                    b,
                    show_opt(ox[t]),
                    show_opt(oy[t]),
                    show_inputs(xs, t, 16),
                    show_inputs(ys, t, 16)
                ),
            );
            return;
        }
    }
}

fn constant<T: Scalar>(k: Kind, c: f64, out: &mut TrialOut) {
    let vi_low = matches!(k, Kind::Sma(_) | Kind::Ema(_) | Kind::EmaAlpha(..) | Kind::Alma(_) | Kind::AlmaCustom(..) | Kind::LagFilter(_));
    let s = settle(&k);
    let len = if vi_low { k.n().unwrap_or(1) * 2 + 30 } else { s + 50 };
    let len = if T::EXACT { len.min(160) } else { len };
    let xs = vec![T::of(c); len];
    let Some(o) = drive(k, &xs) else { return };
    let cell = format!("{}/constant/{}", k.name(), T::NAME);
    for t in 0..len {
        let Some(v) = o[t] else { continue };
        let (ok, what) = match k {
            Kind::Cumulative(_) => continue,
            _ if vi_low => (
                if T::EXACT { v.same(T::of(c)) } else { (v.f() - c).abs() <= 64.0 * f64::EPSILON * (t + 1) as f64 * c.abs() * if matches!(k, Kind::Alma(_) | Kind::AlmaCustom(..)) { 64.0 } else { 1.0 } },
                "low-pass member must return the constant from its first output",
            ),
            Kind::SuperSmoother(_) => {
                if t < s {
                    continue;
                }
                ((v.f() - c).abs() <= 1e-9 * c.abs(), "SuperSmoother must have converged to the constant")
            }
            _ => {
                if t < s {
                    continue;
                }
                (v.f().abs() <= 1e-9 * c.abs(), "high-pass member must have decayed to 0")
            }
        };
        out.cell(&cell, 1);
        if !ok {
            out.violation(
                k.name(),
                "constant",
                "any",
                format!("{} at {}: constant input {:?}, step {}: output {} ({}; settle length S = {})", Spec::leaf(k).show(), T::NAME, c, t, v.show(), what, s),
            );
            return;
        }
    }
}

fn ns(cfg: &Cfg) -> Vec<usize> {
    match cfg.tier {
        Tier::Quick => vec![1, 2, 3, 4, 5, 8, 13, 30, 64],
        Tier::Thorough => (1..=64).collect(),
    }
}

impl Monitor for C10 {
    fn id(&self) -> &'static str {
        "C10"
    }
    fn plan(&self, cfg: &Cfg) -> u64 {
        (8 * ns(cfg).len()) as u64 * cfg.tier.pick(10, 60) + 8 * 12 * 2
    }
    fn trial(&self, cfg: &Cfg, idx: u64, out: &mut TrialOut) {
        let nl = ns(cfg);
        let mut rng = Rng::for_trial(cfg.seed, "C10", idx);
        let main = (8 * nl.len()) as u64 * cfg.tier.pick(10, 60);
        if idx >= main {
            // constant clause at f64 for every view at every N in 1..12 (twice, two constants): the small
            // windows are where a buffer shorter than the filter's taps passes the constant level
            let j = idx - main;
            let vi = (j % 8) as usize;
            let n = 1 + ((j / 8) % 12) as usize;
            let k = kind(vi, n, &mut rng);
            let c: f64 = if j / 96 == 0 { 2.5 } else { *rng.pick(&[1.0, -2.5, 1000.0, 0.1, 0.375]) };
            out.key(mix(hash_str(&format!("{:?}const-small", k)), c.to_bits()));
            out.count("constant_clause_trials_at_every_N_up_to_12", 1);
            constant::<f64>(k, c, out);
            return;
        }
        let vi = (idx % 8) as usize;
        let n = nl[((idx / 8) % nl.len() as u64) as usize];
        let n = super::jitter_n(cfg, n, 1, 64, &mut rng);
        let rep = idx / (8 * nl.len() as u64);
        let k = kind(vi, n, &mut rng);
        let exact = rep % 2 == 0;
        if rep % 5 == 4 {
            let c: f64 = *rng.pick(&[1.0, -2.5, 1000.0, 0.1, 0.375]);
            out.key(mix(hash_str(&format!("{:?}const{}", k, exact)), c.to_bits()));
            if exact {
                constant::<Xq>(k, c, out)
            } else {
                constant::<f64>(k, c, out)
            }
            return;
        }
        let second_order = matches!(k, Kind::SuperSmoother(_) | Kind::Roofing(..) | Kind::Cyber(_));
        let len = if exact {
            if second_order {
                100
            } else {
                (4 * n + 40).min(200)
            }
        } else {
            rng.usize(200, cfg.tier.pick(1500, 10_000))
        };
        let cx = *rng.pick(&[Class::Walk, Class::Uniform, Class::SmallInt, Class::Spike, Class::Sine, Class::Blocks, Class::ZeroSum]);
        let cy = *rng.pick(&[Class::Walk, Class::Uniform, Class::SmallInt, Class::Alternating, Class::Step, Class::Zero]);
        let mut xs = gen::gen(cx, n, len, &mut rng);
        let mut ys = gen::gen(cy, n, len, &mut rng);
        if rng.chance(1, 6) {
            // x hovers within 2^-10 of a level and now and then jumps by 2^17..2^24 (dyadic values): a
            // jump a hundred million times the stream's own recent range, next to an ordinary y.  A
            // "glitch guard" relative to the recent range acts on x alone, not on a x + b y.
            let mut lvl = 1.0f64;
            for x in xs.iter_mut() {
                if rng.chance(1, 12) {
                    lvl += 2f64.powi(rng.range(17, 24) as i32) * if rng.coin() { 1.0 } else { -1.0 };
                }
                *x = lvl + rng.range(-4, 4) as f64 / 4096.0;
            }
            out.count("x_streams_that_hover_and_jump", 1);
        }
        let mut a = *rng.pick(&[1.0, -1.0, 2.0, 0.5, -3.0, 0.0, 1.25, 7.0]);
        let mut b = *rng.pick(&[1.0, -1.0, 2.0, -0.5, 0.0, 3.0, 0.75]);
        if !exact && rep % 5 == 1 {
            // very small / very large units: an absolute threshold (noise gate, epsilon) shows only there
            a = *rng.pick(&[8.673617379884035e-19, 1.152921504606847e18, 9.313225746154785e-10]);
            b = a * *rng.pick(&[1.0, -1.5, 0.5]);
        }
        if rep % 5 == 3 {
            // `cancel`: y = -x on stretches and a = b, so that the combined stream (and with it the
            // filter state) is exactly 0 at chosen steps
            a = 1.0;
            b = 1.0;
            let from = rng.usize(0, len / 2);
            for i in from..(from + rng.usize(1, 3 * n + 5)).min(len) {
                ys[i] = -xs[i];
            }
        }
        out.key(mix(hash_str(&format!("{:?}{}{}{}", k, exact, a, b)), mix(gen::hash_f64s(&xs), gen::hash_f64s(&ys))));
        if idx % 97 == 0 {
            out.sample(format!("{} at {}: x class {:?}, y class {:?}, a = {}, b = {}, {} steps", Spec::leaf(k).show(), if exact { "Xq" } else { "f64" }, cx, cy, a, b, len));
        }
        if exact {
            superposition::<Xq>(k, &xs, &ys, a, b, out)
        } else {
            superposition::<f64>(k, &xs, &ys, a, b, out)
        }
    }
    fn required_cells(&self, _cfg: &Cfg) -> Vec<String> {
        let mut v = vec![];
        for n in NAMES {
            v.push(format!("{}/superposition/Xq", n));
            v.push(format!("{}/superposition/f64", n));
            if n != "Cumulative" {
                v.push(format!("{}/constant/f64", n));
            }
        }
        v
    }
    fn rule(&self) -> String {
        "trial = (one of the eight linear views with parameter grid; N; streams x, y of two input classes; scalars a, b incl. 0 and negatives; `cancel` variant where a x + b y is exactly 0 on stretches); three instances fed x, y, a x + b y; at every step where they report, view(a x + b y) must equal a view(x) + b view(y): exactly at the exact scalar, within 64 eps x steps x gain x (|a| max|x| + |b| max|y|) at f64. Constant clause (random N, and in both tiers every N in 1..12 for every view at f64): low-pass members return c from the first output, SuperSmoother within 1e-9|c| after the settle length S, high-pass members within 1e-9|c| of 0 after S (S from the reference pole radius). distinct = distinct (view+parameters, scalar, a, b, input hashes)".into()
    }
    fn assumptions(&self) -> Vec<String> {
        vec!["second-order filters at the exact scalar are run for 100 steps (rational growth)".into()]
    }
    fn design_ref(&self) -> &'static str {
        "DESIGN.md 3/C10"
    }
}
