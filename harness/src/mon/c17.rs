//! C17 — views are deterministic values: twins agree bit for bit, last() is pure, clones are
//! independent.

use super::{hash_str, mix, show_inputs};
use crate::catalogue::{self, all_unary, BINS};
use crate::dynview::{build_plain, Dyn, Kind, MaK, Spec};
use crate::gen::{self, Class, Rng};
use crate::report::{Cfg, Monitor, Tier, TrialOut};
use crate::scalar::{same_opt, show_opt, Scalar};
use crate::xq::Xq;
use sliding_features::View;

pub struct C17;

const CLASSES: [Class; 7] = [
    Class::Walk,
    Class::SmallInt,
    Class::Uniform,
    Class::Blocks,
    Class::Spike,
    Class::ZeroSum,
    Class::Const,
];

pub fn random_spec(rng: &mut Rng, max_n: usize) -> Spec {
    let depth = rng.usize(1, 3);
    fn go(rng: &mut Rng, d: usize, max_n: usize) -> Spec {
        if d == 0 {
            return Spec::Echo;
        }
        match rng.below(12) {
            0..=7 => Spec::un(catalogue::random_unary(rng, 1, max_n), go(rng, d - 1, max_n)),
            8..=9 => Spec::bin(*rng.pick(&BINS), go(rng, d - 1, max_n), go(rng, d - 1, max_n)),
            _ => {
                let mk = if rng.coin() { MaK::Pfe } else { MaK::Eft };
                let n = rng.usize(3, max_n.max(3));
                let ma = rng.pick(&catalogue::ma_specs(rng.clone().usize(1, 5))).clone();
                Spec::ma(mk, n, go(rng, d - 1, max_n), ma)
            }
        }
    }
    go(rng, depth, max_n)
}

fn name_cell(spec: &Spec) -> String {
    format!("view/{}", spec.top())
}

fn fail<T: Scalar>(out: &mut TrialOut, spec: &Spec, clause: &str, step: usize, a: Option<T>, b: Option<T>, xs: &[f64], extra: &str) {
    out.violation(
        &spec.top(),
        clause,
        "any",
        format!(
            "{} at {}: step {}: {} vs {} ({})\n{}",
            spec.show(),
            T::NAME,
            step,
            show_opt(a),
            show_opt(b),
            extra,
            show_inputs(xs, step, 24)
        ),
    );
}

fn run<T: Scalar>(spec: &Spec, xs: &[f64], ys: &[f64], rng: &mut Rng, out: &mut TrialOut, threaded: bool) {
    let cell = name_cell(spec);
    out.key(mix(hash_str(&spec.show()), gen::hash_f64s(xs)));
    let len = xs.len();
    // --- twin + last() purity -------------------------------------------------------------
    let mut a = build_plain::<T>(spec);
    let mut b = build_plain::<T>(spec);
    // never-cloned reference outputs
    let mut reference: Vec<Option<T>> = Vec::with_capacity(len);
    // last() before the first update, several times
    let p0 = a.last();
    for _ in 0..rng.usize(0, 3) {
        let p = a.last();
        out.cell("clause/last-pure", 1);
        if !same_opt(p, p0) {
            fail(out, spec, "last-pure", 0, p0, p, xs, "repeated last() before first update");
            return;
        }
    }
    for i in 0..len {
        let x = T::of(xs[i]);
        a.update(x);
        b.update(x);
        let extra = rng.usize(0, 3);
        let first = a.last();
        for _ in 0..extra {
            let again = a.last();
            out.cell("clause/last-pure", 1);
            if !same_opt(first, again) {
                fail(out, spec, "last-pure", i, first, again, xs, "two consecutive last() calls differ");
                return;
            }
        }
        let rb = b.last();
        out.cell(&cell, 1);
        out.cell("clause/twin", 1);
        if !same_opt(first, rb) {
            fail(out, spec, "twin", i, first, rb, xs, "instance queried with extra last() calls vs twin queried once");
            return;
        }
        reference.push(rb);
    }
    // the twins go away before anything else is built (a shared table kept alive by them would
    // mask an interference between differently parameterised instances)
    drop(a);
    drop(b);
    // --- "any number of times" includes zero: a twin that is polled only now and then -------------
    {
        let mut c = build_plain::<T>(spec);
        for i in 0..len {
            c.update(T::of(xs[i]));
            if rng.chance(1, 3) || i + 1 == len {
                let r = c.last();
                out.cell("clause/last-pure", 1);
                if !same_opt(r, reference[i]) {
                    fail(out, spec, "last-pure", i, r, reference[i], xs, "instance polled only at some steps vs twin polled after every update");
                    return;
                }
            }
        }
    }
    // --- other instances alive at the same time (same window, other parameters, other scalar) ------
    // must not influence a view: shared tables / caches keyed too coarsely show here
    {
        let n = spec_n(spec);
        let mut decoys64: Vec<Dyn<f64>> = vec![];
        let mut decoys32: Vec<Dyn<f32>> = vec![];
        for k in decoy_kinds(n) {
            if let Ok(mut d) = crate::report::guarded(|| build_plain::<f64>(&Spec::leaf(k))) {
                for x in xs.iter().take(3) {
                    d.update(*x);
                }
                decoys64.push(d);
            }
            if let Ok(mut d) = crate::report::guarded(|| build_plain::<f32>(&Spec::leaf(k))) {
                for x in xs.iter().take(3) {
                    d.update(*x as f32);
                }
                decoys32.push(d);
            }
        }
        let mut c = build_plain::<T>(spec);
        for i in 0..len {
            c.update(T::of(xs[i]));
            let r = c.last();
            out.cell("clause/twin-with-other-instances-alive", 1);
            if !same_opt(r, reference[i]) {
                fail(out, spec, "twin", i, r, reference[i], xs, "instance built while views with the same window but other parameters / another scalar were alive vs instance built alone");
                return;
            }
        }
        drop(decoys64);
        drop(decoys32);
    }
    // --- clone independence -----------------------------------------------------------------
    if !spec.contains_add() {
        // a third of the clones is taken while the view is still warming up (or fresh)
        let at = if rng.chance(1, 3) { rng.usize(0, spec_n(spec).min(len.saturating_sub(1))) } else { rng.usize(0, len.saturating_sub(1)) };
        if at <= spec_n(spec) {
            out.count("clones_taken_during_warm_up", 1);
        }
        let mut orig = build_plain::<T>(spec);
        for x in &xs[..at] {
            orig.update(T::of(*x));
        }
        let clone: Option<Dyn<T>> = orig.try_clone();
        if let Some(mut cl) = clone {
            out.cell("clause/clone", 1);
            // clone-of-clone taken immediately
            let mut cl2 = cl.try_clone().unwrap();
            // (i) last() agrees right after cloning
            if !same_opt(orig.last(), cl.last()) {
                fail(out, spec, "clone-same-continuation", at, orig.last(), cl.last(), xs, "right after clone()");
                return;
            }
            // (ii) divergent continuation of the clone must not disturb the original
            let mode = rng.below(3);
            for i in at..len {
                match mode {
                    0 => {
                        // interleaved: clone gets ys, original gets xs
                        cl.update(T::of(ys[i]));
                        orig.update(T::of(xs[i]));
                    }
                    1 => {
                        orig.update(T::of(xs[i]));
                        cl.update(T::of(ys[i]));
                    }
                    _ => {
                        // clone races ahead by two divergent values per step
                        cl.update(T::of(ys[i]));
                        cl.update(T::of(ys[len - 1 - (i - at)]));
                        orig.update(T::of(xs[i]));
                    }
                }
                let r = orig.last();
                out.cell("clause/clone", 1);
                if !same_opt(r, reference[i]) {
                    fail(out, spec, "clone-independent", i, r, reference[i], xs, &format!("original after its clone (taken at {}) was fed other values vs never-cloned twin", at));
                    return;
                }
            }
            // (iii) the clone-of-clone, fed the same continuation as the never-cloned twin, agrees
            for i in at..len {
                cl2.update(T::of(xs[i]));
                let r = cl2.last();
                out.cell("clause/clone", 1);
                if !same_opt(r, reference[i]) {
                    fail(out, spec, "clone-same-continuation", i, r, reference[i], xs, &format!("clone of clone taken at {} vs never-cloned twin", at));
                    return;
                }
            }
            // (iv) and the diverged clone equals a fresh instance fed prefix + its own continuation
            if mode != 2 {
                let mut fresh = build_plain::<T>(spec);
                for x in &xs[..at] {
                    fresh.update(T::of(*x));
                }
                for y in &ys[at..len] {
                    fresh.update(T::of(*y));
                }
                out.cell("clause/clone", 1);
                if !same_opt(fresh.last(), cl.last()) {
                    fail(out, spec, "clone-independent", len - 1, cl.last(), fresh.last(), xs, "diverged clone vs fresh instance fed the same total history");
                    return;
                }
            }
            // drop order varied
            if rng.coin() {
                drop(orig);
                drop(cl);
            } else {
                drop(cl);
                drop(orig);
            }
        }
    } else {
        out.count("trees_with_Add_clone_clause_vacuous", 1);
    }
    // --- another thread, concurrently: exposes process-global state ---------------------------
    if threaded && !T::EXACT {
        let spec2 = spec.clone();
        let xs2 = xs.to_vec();
        let other: Vec<Option<T>> = std::thread::scope(|s| {
            let h = s.spawn(move || {
                let mut v = build_plain::<T>(&spec2);
                let mut o = vec![];
                for x in &xs2 {
                    v.update(T::of(*x));
                    o.push(v.last());
                }
                o
            });
            // drive a twin here at the same time
            let mut v = build_plain::<T>(spec);
            for x in xs {
                v.update(T::of(*x));
            }
            h.join().unwrap()
        });
        for i in 0..len {
            out.cell("clause/twin-other-thread", 1);
            if !same_opt(other[i], reference[i]) {
                fail(out, spec, "twin", i, other[i], reference[i], xs, "twin driven concurrently on another thread");
                return;
            }
        }
    }
}

impl Monitor for C17 {
    fn id(&self) -> &'static str {
        "C17"
    }
    fn plan(&self, cfg: &Cfg) -> u64 {
        let u = all_unary(3).len() as u64;
        u * cfg.tier.pick(12, 400) + cfg.tier.pick(3000, 300_000)
    }
    fn trial(&self, cfg: &Cfg, idx: u64, out: &mut TrialOut) {
        let mut rng = Rng::for_trial(cfg.seed, "C17", idx);
        let u = all_unary(3).len() as u64;
        let enumerated = u * cfg.tier.pick(12, 400);
        let max_n = cfg.tier.pick(16, 32);
        let spec = if idx < enumerated {
            let n = rng.usize(1, max_n);
            let k = catalogue::bump_n(all_unary(n)[(idx % u) as usize], n);
            Spec::leaf(k)
        } else {
            match (idx - enumerated) % 10 {
                0 => Spec::ma(MaK::Pfe, rng.usize(3, max_n), Spec::Echo, rng.pick(&catalogue::ma_specs(3)).clone()),
                1 => Spec::ma(MaK::Eft, rng.usize(2, max_n), Spec::Echo, rng.pick(&catalogue::ma_specs(3)).clone()),
                2 => Spec::bin(BINS[(idx % 4) as usize], Spec::leaf(catalogue::random_unary(&mut rng, 1, 9)), Spec::leaf(catalogue::random_unary(&mut rng, 1, 9))),
                3 => Spec::Constant(2.5),
                4 => Spec::Echo,
                _ => random_spec(&mut rng, max_n),
            }
        };
        let class = *rng.pick(&CLASSES);
        let exact = idx % 8 == 7;
        let len = if exact { 60 } else { rng.usize(20, cfg.tier.pick(160, 400)) };
        let n = spec_n(&spec);
        let mut xs = gen::gen(class, n, len, &mut rng);
        let mut ys = gen::gen(Class::Uniform, n, len, &mut rng);
        if catalogue::spec_needs_positive(&spec) {
            xs = gen::positive(&xs);
            ys = gen::positive(&ys);
        }
        let threaded = idx % 16 == 3;
        match idx % 8 {
            6 => run::<f32>(&spec, &xs, &ys, &mut rng, out, threaded),
            7 => run::<Xq>(&spec, &xs, &ys, &mut rng, out, false),
            _ => run::<f64>(&spec, &xs, &ys, &mut rng, out, threaded),
        }
        if idx % 401 == 0 {
            out.sample(format!("{} on class {:?}, {} steps, clone point random, scalar slot {}", spec.show(), class, len, idx % 8));
        }
        let _ = Tier::Quick;
    }
    fn required_cells(&self, _cfg: &Cfg) -> Vec<String> {
        let mut names: Vec<String> = all_unary(3).iter().map(|k| format!("view/{}", k.name())).collect();
        names.sort();
        names.dedup();
        names.push("view/PolarizedFractalEfficiency".into());
        names.push("view/EhlersFisherTransform".into());
        names.push("view/Echo".into());
        names.push("view/Constant".into());
        for b in BINS {
            names.push(format!("view/{:?}", b));
        }
        for c in ["clause/twin", "clause/last-pure", "clause/clone", "clause/twin-other-thread", "clause/twin-with-other-instances-alive"] {
            names.push(c.into());
        }
        names
    }
    fn rule(&self) -> String {
        "trial = one view or random chain (depth<=3) and one seeded stream: (1) instance A queried with 0..3 extra last() calls per step vs twin B queried once, and an instance polled at only a third of the steps vs B, (2) clone taken at a random step, clone fed a different continuation (three interleavings) while the original must keep matching a never-cloned twin, clone-of-clone fed the same continuation must match too, diverged clone must equal a fresh instance with the same total history, (3) a twin driven concurrently on another thread, (4) a twin built and driven while thirteen views with the same window length but other secondary parameters, in f64 and f32, are alive on the same thread; all comparisons to_bits. distinct = distinct (tree, input hash)".into()
    }
    fn assumptions(&self) -> Vec<String> {
        vec!["Add does not derive Clone: the clone clause is vacuous for trees containing Add (counted)".into()]
    }
    fn design_ref(&self) -> &'static str {
        "DESIGN.md 3/C17"
    }
}

/// views with the same window length as the view under test but other secondary parameters
fn decoy_kinds(n: usize) -> Vec<Kind> {
    vec![
        Kind::AlmaCustom(n, 2.0, 0.5),
        Kind::AlmaCustom(n, 10.0, 0.0),
        Kind::Alma(n),
        Kind::EmaAlpha(n, 0.5),
        Kind::Ema(n),
        Kind::LagFilter(0.25),
        Kind::LagFilter(0.9375),
        Kind::Roofing(n.max(2), 3),
        Kind::Roofing(n.max(2), 9),
        Kind::SuperSmoother(n),
        Kind::Cyber(n),
        Kind::Gte(-1.0),
        Kind::Lte(3.0),
    ]
}

pub fn spec_n(s: &Spec) -> usize {
    match s {
        Spec::Un(k, i) => k.n().unwrap_or(0).max(spec_n(i)),
        Spec::Tap(_, i) | Spec::Warm(_, i) => spec_n(i),
        Spec::Bin(_, a, b) => spec_n(a).max(spec_n(b)),
        Spec::Ma(_, n, v, m) => (*n).max(spec_n(v)).max(spec_n(m)),
        _ => 1,
    }
    .max(1)
}
#[allow(dead_code)]
fn _k(_: Kind) {}
