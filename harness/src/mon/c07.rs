//! C07 — bounded indicators stay inside their documented range.
//!
//! Range automaton on every Some output in f64 and f32: violation iff the value
//! is NaN or lies outside the documented interval by more than 16 ulps of the bound.  Workload: the
//! adversarial histories the property names (flat after volatile, blocks, jumps on the oldest
//! segment, exact lines at an offset, tiny variation on a large level, dynamic range up to 2^60).
//! A violation is classified by the exact oracle on the failing window; that classification is the
//! predicate known findings are keyed on.

use super::{hash_str, mix, show_inputs};
use crate::dynview::{build_plain, Kind, MaK, Spec};
use crate::gen::{self, Class, Rng};
use crate::oracle::ehlers as oe;
use crate::oracle::window as ow;
use crate::report::{guarded, Cfg, Monitor, Tier, TrialOut};
use crate::scalar::Scalar;
use crate::xq::Xq;
use sliding_features::View;

pub struct C07;

const CLASSES: [Class; 14] = [
    Class::VolatileThenFlat,
    Class::Blocks,
    Class::JumpOldest,
    Class::LinearExact,
    Class::OffsetSmallVar,
    Class::Step,
    Class::RampUp,
    Class::RampDown,
    Class::Walk,
    Class::Uniform,
    Class::SmallInt,
    Class::Spike,
    Class::Const,
    Class::Alternating,
];

#[derive(Clone, Debug)]
struct Case {
    name: &'static str,
    spec: Spec,
    lo: f64,
    hi: f64,
    positive: bool,
    n: usize,
    kind: Option<Kind>,
    ma: oe::RefMa,
}

const NAMES: [&str; 16] = [
    "Rsi",
    "MyRSI",
    "HLNormalizer",
    "CorrelationTrendIndicator",
    "NoiseEliminationTechnology",
    "Tanh",
    "PolarizedFractalEfficiency",
    "LaguerreRSI",
    "BinaryEntropy",
    "EhlersFisherTransform",
    "WelfordOnline",
    "WelfordRolling",
    "Vsct",
    "GTE",
    "LTE",
    "CenterOfGravity",
];

fn case(vi: usize, n: usize, rng: &mut Rng) -> Case {
    let n2 = n.max(2);
    let inf = f64::INFINITY;
    let mut ma = oe::RefMa::Echo;
    let mut ma_pick = |rng: &mut Rng| -> Spec {
        let k = rng.usize(1, 6);
        match rng.below(3) {
            0 => {
                ma = oe::RefMa::Ema(k);
                Spec::leaf(Kind::Ema(k))
            }
            1 => {
                ma = oe::RefMa::Sma(k);
                Spec::leaf(Kind::Sma(k))
            }
            _ => {
                ma = oe::RefMa::Ema(1);
                Spec::leaf(Kind::Ema(1))
            }
        }
    };
    let (spec, lo, hi, positive) = match vi {
        0 => (Spec::leaf(Kind::Rsi(n2)), 0.0, 100.0, false),
        1 => (Spec::leaf(Kind::MyRsi(n2)), -1.0, 1.0, false),
        2 => (Spec::leaf(Kind::HL(n2)), -1.0, 1.0, false),
        3 => (Spec::leaf(Kind::Cti(n2)), -1.0, 1.0, false),
        4 => (Spec::leaf(Kind::Net(n2)), -1.0, 1.0, false),
        5 => (Spec::leaf(Kind::Tanh), -1.0, 1.0, false),
        6 => (Spec::ma(MaK::Pfe, n.max(3), Spec::Echo, ma_pick(rng)), -1.0, 1.0, false),
        7 => (Spec::leaf(Kind::LagRsi(n2)), 0.0, 1.0, false),
        8 => (Spec::leaf(Kind::BinEnt(n2)), 0.0, 1.0, false),
        9 => {
            // Ema / Sma, incl. window 1 (no smoothing: drives the +-0.99 clamp)
            let k = *rng.pick(&[1usize, 1, 2, 5]);
            let m = match rng.below(3) {
                0 => Spec::leaf(Kind::Ema(k)),
                1 => Spec::leaf(Kind::Sma(k)),
                // a smoother that overshoots: the +-0.99 clamp must come after it
                _ => rng.pick(&crate::catalogue::overshooting_ma_specs(rng.clone().usize(2, 12))).clone(),
            };
            let b = 199f64.ln();
            (Spec::ma(MaK::Eft, n2, Spec::Echo, m), -b, b, false)
        }
        10 => (Spec::leaf(Kind::Welford(n2)), 0.0, inf, false),
        11 => (Spec::leaf(Kind::WelfordRolling), 0.0, inf, false),
        12 => {
            let b = (n2 as f64 - 1.0) / (n2 as f64).sqrt();
            (Spec::leaf(Kind::Vsct(n2)), -b, b, false)
        }
        13 => {
            let c = *rng.pick(&[-1.0, 0.0, 0.5, 1.0]);
            (Spec::leaf(Kind::Gte(c)), c, inf, false)
        }
        14 => {
            let c = *rng.pick(&[-1.0, 0.0, 0.5, 1.0]);
            (Spec::leaf(Kind::Lte(c)), -inf, c, false)
        }
        _ => {
            let b = (n2 as f64 - 1.0) / 2.0;
            (Spec::leaf(Kind::Cog(n2)), -b, b, true)
        }
    };
    let kind = match &spec {
        Spec::Un(k, _) => Some(*k),
        _ => None,
    };
    Case { name: NAMES[vi], n: super::c17::spec_n(&spec), spec, lo, hi, positive, kind, ma }
}

fn ulps16<T: Scalar>(lo: f64, hi: f64) -> f64 {
    let m = [lo.abs(), hi.abs()].iter().cloned().filter(|x| x.is_finite()).fold(0.0, f64::max);
    16.0 * T::EPS * m
}

/// widen the stream's dynamic range (up to 2^60 between blocks) while keeping it finite
fn widen(xs: &mut [f64], rng: &mut Rng) {
    let mut scale = 1.0;
    for (i, x) in xs.iter_mut().enumerate() {
        if i % 97 == 0 && rng.chance(1, 3) {
            scale = 2f64.powi(rng.range(-30, 30) as i32);
        }
        *x *= scale;
    }
}

/// classify a range violation with the exact oracle (the predicate known findings key on)
fn classify(c: &Case, xs: &[f64], t: usize, got: f64, eps: f64) -> &'static str {
    let n = c.n.max(1);
    let w: Vec<Xq> = xs[(t + 1).saturating_sub(n)..=t].iter().map(|x| Xq::of(*x)).collect();
    match c.name {
        "Vsct" => {
            let _ = &w;
            if super::welford_residue_explains(&c.kind.unwrap(), xs, t, got, eps) {
                "explained_by_running_m2_rounding_residue"
            } else {
                "any"
            }
        }
        "PolarizedFractalEfficiency" => {
            // does the defining formula itself (C11) leave the range on this input?
            let n = if let Spec::Ma(_, pn, ..) = &c.spec { *pn } else { n };
            let r = oe::pfe(xs[..=t].to_vec().as_slice(), n, c.ma);
            match r[t] {
                Some(e) if e.abs() > 1.0 + 16.0 * eps && (e - got).abs() <= (1e-9f64).max(4096.0 * eps) * e.abs().max(1.0) => "defining_formula_of_C11_itself_exceeds_range",
                _ => "any",
            }
        }
        "CenterOfGravity" => {
            // the bound (N-1)/2 is attained when all the weight sits on one end of the window; the
            // quotient of two N-term sums is then off by up to about N ulps
            let b = (n as f64 - 1.0) / 2.0;
            if got.abs() - b <= 4.0 * n as f64 * eps * b.max(1.0) {
                "excess_within_4N_ulps_of_the_bound"
            } else {
                "any"
            }
        }
        _ => "any",
    }
}

fn run<T: Scalar>(c: &Case, xs: &[f64], out: &mut TrialOut) {
    let cell = format!("{}/{}", c.name, T::NAME);
    let Ok(mut v) = guarded(|| build_plain::<T>(&c.spec)) else {
        out.count("constructor_rejections", 1);
        return;
    };
    let tol = ulps16::<T>(c.lo, c.hi);
    let mut prev_dd = f64::NEG_INFINITY;
    let _ = &mut prev_dd;
    for t in 0..xs.len() {
        let Ok(got) = guarded(|| {
            v.update(T::of(xs[t]));
            v.last()
        }) else {
            out.count("trials_ended_by_panic_of_code_under_test(C15)", 1);
            return;
        };
        let Some(g) = got else { continue };
        let g = g.f();
        out.cell(&cell, 1);
        if g == c.lo || g == c.hi {
            out.count("outputs_exactly_on_a_bound", 1);
        }
        if !(g >= c.lo - tol && g <= c.hi + tol) {
            let pred = classify(c, xs, t, g, T::EPS);
            out.violation(
                c.name,
                "range",
                pred,
                format!(
                    "{} at {}: step {}: output {:e} outside the documented range [{:e}, {:e}] (tolerance 16 ulps of the bound = {:e})\n{}",
                    c.spec.show(),
                    T::NAME,
                    t,
                    g,
                    c.lo,
                    c.hi,
                    tol,
                    show_inputs(xs, t, c.n + 8)
                ),
            );
            return;
        }
    }
}

/// Min <= Sma, Alma, newest <= Max over the same window
fn sandwich<T: Scalar>(n: usize, xs: &[f64], out: &mut TrialOut) {
    let mk = |k: Kind| build_plain::<T>(&Spec::leaf(k));
    let (mut mn, mut mx, mut sma, mut alma) = (mk(Kind::Min(n)), mk(Kind::Max(n)), mk(Kind::Sma(n)), mk(Kind::Alma(n)));
    let mut big = 0f64;
    for t in 0..xs.len() {
        big = big.max(xs[t].abs());
        let x = T::of(xs[t]);
        mn.update(x);
        mx.update(x);
        sma.update(x);
        alma.update(x);
        let (Some(lo), Some(hi)) = (mn.last(), mx.last()) else { continue };
        let (lo, hi) = (lo.f(), hi.f());
        let tol = 16.0 * T::EPS * lo.abs().max(hi.abs());
        for (name, val) in [("Sma", sma.last()), ("Alma", alma.last()), ("newest", Some(x))] {
            let Some(v) = val else { continue };
            let v = v.f();
            out.cell(&format!("sandwich/{}/{}", name, T::NAME), 1);
            if !(v >= lo - tol && v <= hi + tol) {
                let excess = (lo - v).max(v - hi);
                // rounding residue of a running sum is bounded by eps x updates x largest magnitude
                let env = 4.0 * T::EPS * (t + 1) as f64 * big;
                let pred = if excess <= env { "excess_le_running_sum_residue_envelope" } else { "any" };
                out.maxi(&format!("sandwich_excess_over_envelope/{}", name), excess / env.max(1e-300));
                out.violation(
                    name,
                    "sandwich",
                    pred,
                    format!(
                        "Min({n}) <= {name}({n}) <= Max({n}) at {}: step {}: {name} = {:e} outside [{:e}, {:e}] by {:e} (tolerance 16 ulps = {:e}; running-sum residue envelope 4 eps x updates x max|x| = {:e})\n{}",
                        T::NAME,
                        t,
                        v,
                        lo,
                        hi,
                        excess,
                        tol,
                        env,
                        show_inputs(xs, t, n + 8)
                    ),
                );
                return;
            }
        }
    }
}

/// Drawdown in [0,1) and non-decreasing for positive inputs
fn drawdown<T: Scalar>(xs: &[f64], out: &mut TrialOut) {
    let mut v = build_plain::<T>(&Spec::leaf(Kind::Drawdown));
    let mut prev = 0f64;
    for t in 0..xs.len() {
        v.update(T::of(xs[t]));
        let Some(g) = v.last() else { continue };
        let g = g.f();
        out.cell(&format!("Drawdown/{}", T::NAME), 1);
        if !(g >= 0.0 && g <= 1.0 + 16.0 * T::EPS && g >= prev) {
            out.violation(
                "Drawdown",
                "range",
                "any",
                format!("Drawdown at {}: step {}: output {:e} (previous {:e}) not in [0,1) (up to 16 ulps of 1) or decreasing\n{}", T::NAME, t, g, prev, show_inputs(xs, t, 12)),
            );
            return;
        }
        prev = g;
    }
}

fn ns(cfg: &Cfg) -> Vec<usize> {
    match cfg.tier {
        Tier::Quick => vec![2, 3, 4, 5, 8, 14, 30, 64, 257],
        Tier::Thorough => (2..=64).chain([257]).collect(),
    }
}

impl Monitor for C07 {
    fn id(&self) -> &'static str {
        "C07"
    }
    fn plan(&self, cfg: &Cfg) -> u64 {
        (18 * ns(cfg).len() * CLASSES.len()) as u64 * cfg.tier.pick(3, 12) + cfg.tier.pick(240, 7200)
    }
    fn trial(&self, cfg: &Cfg, idx: u64, out: &mut TrialOut) {
        let nl = ns(cfg);
        let mut rng = Rng::for_trial(cfg.seed, "C07", idx);
        let main = (18 * nl.len() * CLASSES.len()) as u64 * cfg.tier.pick(3, 12);
        if idx >= main {
            // exactly linear off-grid windows at large N: a quotient of N-term sums that is +-1
            // (or sits on its bound) in exact arithmetic collects about N ulps of rounding there
            let j = idx - main;
            let n = *rng.pick(&[64usize, 130, 257, 400]);
            let (name, spec, lo, hi, positive) = if j % 2 == 0 {
                ("CorrelationTrendIndicator", Spec::leaf(Kind::Cti(n)), -1.0, 1.0, false)
            } else {
                let b = (n as f64 - 1.0) / 2.0;
                ("CenterOfGravity", Spec::leaf(Kind::Cog(n)), -b, b, true)
            };
            let start = *rng.pick(&[100.0, 1000.0, 0.7, 12345.6, 1.0e5]);
            let step = *rng.pick(&[1.0 / 3.0, -1.0 / 3.0, 0.1, -0.7, 1e-3, 2.3]) * (1.0 + rng.unit53());
            let len = 2 * n + 50;
            let mut xs: Vec<f64> = (0..len).map(|i| start + step * i as f64).collect();
            if positive {
                // CoG sits on its bound when all the weight is on one end of the window
                let big = *rng.pick(&[1.0e12, 3.3e9]);
                xs = (0..len).map(|i| if i % (n + 1) == 0 { big * (1.0 + rng.unit53()) } else { 1.0 + rng.unit53() }).collect();
            }
            let c = Case { name, n, spec, lo, hi, positive, kind: None, ma: oe::RefMa::Echo };
            out.key(mix(hash_str(&format!("ramps{}{}", name, n)), gen::hash_f64s(&xs)));
            out.count("large_window_line_trials", 1);
            if (j / 2) % 2 == 0 {
                run::<f64>(&c, &xs, out)
            } else {
                let xs32: Vec<f64> = xs.iter().map(|x| (*x as f32) as f64).collect();
                run::<f32>(&c, &xs32, out)
            }
            return;
        }
        let vi = (idx % 18) as usize;
        let n = nl[((idx / 18) % nl.len() as u64) as usize];
        let n = super::jitter_n(cfg, n, 2, 64, &mut rng);
        let class = CLASSES[((idx / (18 * nl.len() as u64)) % CLASSES.len() as u64) as usize];
        let rep = idx / (18 * nl.len() * CLASSES.len()) as u64;
        let long = rep % 2 == 1;
        let len = if long { cfg.tier.pick(3_000, 100_000) / (1 + n / 32) } else { 6 * n + rng.usize(30, 300) };
        let mut xs = gen::gen(class, n, len, &mut rng);
        if rep % 2 == 0 && matches!(class, Class::LinearExact | Class::RampUp | Class::RampDown) && rng.coin() {
            // the stream starts near 1 and then runs along an (off-grid) line at a level of 1e3..1e6:
            // far from anything that was fixed when the view saw its first sample
            let level = *rng.pick(&[1.0e3, 1.0e4, 1.0e5, 1.0e6]);
            let d = *rng.pick(&[0.1, -0.37, 1.3, -0.01]);
            let start = rng.usize(1, 5);
            xs = (0..len).map(|i| if i < start { 1.0 + i as f64 * 0.25 } else { level + d * i as f64 }).collect();
            out.count("trials_ramp_far_from_first_sample", 1);
        }
        let wide = rng.chance(1, 4);
        if wide {
            widen(&mut xs, &mut rng);
        }
        // a third of the streams is moved off the dyadic grid (on it, f64 sums of moderate values
        // are exact and cancellation never shows)
        if rng.chance(1, 3) {
            let (a, b) = (*rng.pick(&[1.1, 0.1, 3.3, 1e-3]), *rng.pick(&[0.0, 0.3, 1000.1, -77.7]));
            for x in xs.iter_mut() {
                *x = *x * a + b;
            }
            out.count("trials_with_non_dyadic_values", 1);
        }
        let f32_too = rep % 4 >= 2;
        // one stream in ten lives entirely in the subnormal range of the scalar under test (finite
        // input all the same): scalings by powers of two that are exact for normal numbers are not
        // (only for the views that compare, subtract and divide but never multiply their inputs by a
        // weight: a product with a weight below 1 cannot be exact in the subnormal range)
        if rng.chance(1, 10) && matches!(vi, 0 | 1 | 2 | 4 | 5 | 8 | 13 | 14) {
            let tiny = if f32_too { 2f64.powi(-140) } else { 2f64.powi(-1040) };
            for x in xs.iter_mut() {
                *x *= tiny;
            }
            out.count("trials_in_the_subnormal_range", 1);
        }
        out.key(mix(hash_str(&format!("{}{}{}", vi, n, f32_too)), gen::hash_f64s(&xs)));
        if vi == 16 {
            if f32_too {
                let xs32: Vec<f64> = xs.iter().map(|x| (*x as f32) as f64).collect();
                sandwich::<f32>(n, &xs32, out)
            } else {
                sandwich::<f64>(n, &xs, out)
            }
            return;
        }
        if vi == 17 {
            let p = gen::positive(&xs);
            if f32_too {
                drawdown::<f32>(&p.iter().map(|x| (*x as f32) as f64).collect::<Vec<_>>(), out)
            } else {
                drawdown::<f64>(&p, out)
            }
            return;
        }
        let c = case(vi, n, &mut rng);
        if c.positive {
            xs = gen::positive(&xs);
        }
        if idx % 251 == 0 {
            out.sample(format!("{} range [{:e}, {:e}] on class {:?}{}: {} values", c.spec.show(), c.lo, c.hi, class, if wide { " with block-wise rescaling up to 2^60" } else { "" }, xs.len()));
        }
        if f32_too {
            let xs32: Vec<f64> = xs.iter().map(|x| (*x as f32) as f64).collect();
            run::<f32>(&c, &xs32, out)
        } else {
            run::<f64>(&c, &xs, out)
        }
    }
    fn required_cells(&self, _cfg: &Cfg) -> Vec<String> {
        let mut v: Vec<String> = NAMES.iter().map(|n| format!("{}/f64", n)).collect();
        for n in ["Sma", "Alma", "newest"] {
            v.push(format!("sandwich/{}/f64", n));
        }
        v.push("Drawdown/f64".into());
        v
    }
    fn rule(&self) -> String {
        "trial = (one of 16 range-documented views with its parameter grid, the Min <= Sma/Alma/newest <= Max sandwich, or Drawdown; N in 2..64 (+257); one of 14 input classes dominated by the adversarial histories the property names, a quarter of them rescaled block-wise over a dynamic range of up to 2^60; short and long (3e3 quick / 1e5 thorough) streams; f64 and f32); every Some output must be a number inside the documented interval up to 16 ulps of the bound. A violation is classified by the exact oracle on the failing window (predicate). distinct = distinct (view, N, scalar, input hash)".into()
    }
    fn assumptions(&self) -> Vec<String> {
        vec!["'a few ulps of the bound itself' = 16 ulps of max(|lo|, |hi|) of the scalar under test".into(), "CenterOfGravity and Drawdown: positive inputs".into()]
    }
    fn design_ref(&self) -> &'static str {
        "DESIGN.md 3/C07"
    }
}
