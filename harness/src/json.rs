//! Minimal JSON value + serializer (no external crates available for this).

use std::collections::BTreeMap;

#[derive(Clone, Debug)]
pub enum J {
    Null,
    Bool(bool),
    Int(i64),
    Num(f64),
    Str(String),
    Arr(Vec<J>),
    Obj(Vec<(String, J)>),
}

impl J {
    pub fn obj(kv: Vec<(&str, J)>) -> J {
        J::Obj(kv.into_iter().map(|(k, v)| (k.to_string(), v)).collect())
    }
    pub fn s(x: impl Into<String>) -> J {
        J::Str(x.into())
    }
    pub fn map_u64(m: &BTreeMap<String, u64>) -> J {
        J::Obj(m.iter().map(|(k, v)| (k.clone(), J::Int(*v as i64))).collect())
    }
    pub fn strs(v: &[String]) -> J {
        J::Arr(v.iter().map(|s| J::Str(s.clone())).collect())
    }
    pub fn render(&self) -> String {
        let mut s = String::new();
        self.write(&mut s, 0);
        s.push('\n');
        s
    }
    fn write(&self, out: &mut String, ind: usize) {
        match self {
            J::Null => out.push_str("null"),
            J::Bool(b) => out.push_str(if *b { "true" } else { "false" }),
            J::Int(i) => out.push_str(&i.to_string()),
            J::Num(f) => {
                if f.is_finite() {
                    out.push_str(&format!("{}", f));
                } else {
                    out.push_str("null")
                }
            }
            J::Str(s) => esc(s, out),
            J::Arr(a) => {
                if a.is_empty() {
                    out.push_str("[]");
                    return;
                }
                out.push_str("[\n");
                for (i, x) in a.iter().enumerate() {
                    out.push_str(&" ".repeat(ind + 1));
                    x.write(out, ind + 1);
                    if i + 1 < a.len() {
                        out.push(',');
                    }
                    out.push('\n');
                }
                out.push_str(&" ".repeat(ind));
                out.push(']');
            }
            J::Obj(o) => {
                if o.is_empty() {
                    out.push_str("{}");
                    return;
                }
                out.push_str("{\n");
                for (i, (k, v)) in o.iter().enumerate() {
                    out.push_str(&" ".repeat(ind + 1));
                    esc(k, out);
                    out.push_str(": ");
                    v.write(out, ind + 1);
                    if i + 1 < o.len() {
                        out.push(',');
                    }
                    out.push('\n');
                }
                out.push_str(&" ".repeat(ind));
                out.push('}');
            }
        }
    }
}

fn esc(s: &str, out: &mut String) {
    out.push('"');
    for c in s.chars() {
        match c {
            '"' => out.push_str("\\\""),
            '\\' => out.push_str("\\\\"),
            '\n' => out.push_str("\\n"),
            '\r' => out.push_str("\\r"),
            '\t' => out.push_str("\\t"),
            c if (c as u32) < 0x20 => out.push_str(&format!("\\u{:04x}", c as u32)),
            c => out.push(c),
        }
    }
    out.push('"');
}
