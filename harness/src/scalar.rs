//! The three scalars every workload can be run at.

use crate::xq::Xq;
use num::Float;
use std::fmt::{Debug, Display};

pub trait Scalar: Float + Debug + Display + Default + Send + Sync + 'static {
    const NAME: &'static str;
    const EXACT: bool;
    /// machine epsilon as f64 (0 for the exact scalar)
    const EPS: f64;
    /// exact conversion for Xq and f64; rounding for f32
    fn of(f: f64) -> Self;
    fn f(self) -> f64;
    /// bit identity (to_bits) for the IEEE scalars, value identity for Xq
    fn same(self, o: Self) -> bool;
    fn show(self) -> String;
    /// arena position of the exact scalar (nothing for the IEEE scalars)
    fn mark() -> usize {
        0
    }
    /// give back every exact value created since `mark` except those in `keep`; only inside
    /// oracles that hold no other handle from that span
    fn release(_mark: usize, _keep: &mut [&mut Self]) {}
}

impl Scalar for f64 {
    const NAME: &'static str = "f64";
    const EXACT: bool = false;
    const EPS: f64 = f64::EPSILON;
    fn of(f: f64) -> f64 {
        f
    }
    fn f(self) -> f64 {
        self
    }
    fn same(self, o: f64) -> bool {
        self.to_bits() == o.to_bits()
    }
    fn show(self) -> String {
        format!("{:e}", self)
    }
}
impl Scalar for f32 {
    const NAME: &'static str = "f32";
    const EXACT: bool = false;
    const EPS: f64 = f32::EPSILON as f64;
    fn of(f: f64) -> f32 {
        f as f32
    }
    fn f(self) -> f64 {
        self as f64
    }
    fn same(self, o: f32) -> bool {
        self.to_bits() == o.to_bits()
    }
    fn show(self) -> String {
        format!("{:e}", self)
    }
}
impl Scalar for Xq {
    const NAME: &'static str = "Xq";
    const EXACT: bool = true;
    const EPS: f64 = 0.0;
    fn of(f: f64) -> Xq {
        Xq::from_f64_exact(f)
    }
    fn f(self) -> f64 {
        self.approx()
    }
    fn same(self, o: Xq) -> bool {
        (self.is_nan() && o.is_nan()) || self == o
    }
    fn mark() -> usize {
        crate::xq::mark()
    }
    fn release(mark: usize, keep: &mut [&mut Xq]) {
        crate::xq::release(mark, keep)
    }
    fn show(self) -> String {
        format!("{:?}", self)
    }
}

pub fn same_opt<T: Scalar>(a: Option<T>, b: Option<T>) -> bool {
    match (a, b) {
        (None, None) => true,
        (Some(x), Some(y)) => x.same(y),
        _ => false,
    }
}
pub fn show_opt<T: Scalar>(a: Option<T>) -> String {
    match a {
        None => "None".to_string(),
        Some(x) => format!("Some({})", x.show()),
    }
}
