//! Seeded generators: SplitMix64 and the catalogue of adversarial input classes.
//! All values are short dyadic rationals (exactly representable in f32, f64 and Xq) unless a
//! class says otherwise.

#[derive(Clone)]
pub struct Rng(pub u64);

impl Rng {
    pub fn new(seed: u64) -> Rng {
        Rng(seed ^ 0x9E37_79B9_7F4A_7C15)
    }
    /// independent stream for (seed, property tag, trial index)
    pub fn for_trial(seed: u64, tag: &str, i: u64) -> Rng {
        let mut h = seed.wrapping_mul(0x9E37_79B9_7F4A_7C15) ^ 0xD1B5_4A32_D192_ED03;
        for b in tag.bytes() {
            h = (h ^ b as u64).wrapping_mul(0x100_0000_01B3);
        }
        h ^= i.wrapping_mul(0xBF58_476D_1CE4_E5B9);
        let mut r = Rng(h);
        r.next();
        r.next();
        r
    }
    pub fn next(&mut self) -> u64 {
        self.0 = self.0.wrapping_add(0x9E37_79B9_7F4A_7C15);
        let mut z = self.0;
        z = (z ^ (z >> 30)).wrapping_mul(0xBF58_476D_1CE4_E5B9);
        z = (z ^ (z >> 27)).wrapping_mul(0x94D0_49BB_1331_11EB);
        z ^ (z >> 31)
    }
    pub fn below(&mut self, n: u64) -> u64 {
        if n == 0 {
            0
        } else {
            self.next() % n
        }
    }
    pub fn range(&mut self, lo: i64, hi: i64) -> i64 {
        // inclusive
        lo + self.below((hi - lo + 1) as u64) as i64
    }
    pub fn usize(&mut self, lo: usize, hi: usize) -> usize {
        self.range(lo as i64, hi as i64) as usize
    }
    pub fn coin(&mut self) -> bool {
        self.next() & 1 == 1
    }
    pub fn chance(&mut self, num: u64, den: u64) -> bool {
        self.below(den) < num
    }
    pub fn pick<'a, X>(&mut self, xs: &'a [X]) -> &'a X {
        &xs[self.below(xs.len() as u64) as usize]
    }
    /// uniform in [0,1) with 20 bits
    pub fn unit20(&mut self) -> f64 {
        (self.below(1 << 20)) as f64 / (1u64 << 20) as f64
    }
    /// full 53-bit uniform in [0,1) ("not nice" values)
    pub fn unit53(&mut self) -> f64 {
        (self.next() >> 11) as f64 / (1u64 << 53) as f64
    }
}

#[derive(Clone, Copy, Debug, PartialEq, Eq, Hash)]
pub enum Class {
    Walk,
    Uniform,
    SmallInt,
    Const,
    Zero,
    RampUp,
    RampDown,
    Step,
    Spike,
    JumpOldest,
    VolatileThenFlat,
    Blocks,
    OffsetSmallVar,
    LinearExact,
    ZeroSum,
    Alternating,
    ExtremumCycle,
    Sine,
}

pub const ALL_CLASSES: &[Class] = &[
    Class::Walk,
    Class::Uniform,
    Class::SmallInt,
    Class::Const,
    Class::Zero,
    Class::RampUp,
    Class::RampDown,
    Class::Step,
    Class::Spike,
    Class::JumpOldest,
    Class::VolatileThenFlat,
    Class::Blocks,
    Class::OffsetSmallVar,
    Class::LinearExact,
    Class::ZeroSum,
    Class::Alternating,
    Class::ExtremumCycle,
    Class::Sine,
];

fn q(k: i64, s: u32) -> f64 {
    k as f64 / (1u64 << s) as f64
}

/// Generate `len` values of class `c`; `n` is the window length the interesting events are
/// positioned relative to.
pub fn gen(c: Class, n: usize, len: usize, rng: &mut Rng) -> Vec<f64> {
    let n = n.max(1);
    let mut v = Vec::with_capacity(len);
    match c {
        Class::Walk => {
            let mut x = q(rng.range(-64, 64), 3);
            for _ in 0..len {
                x += q(rng.range(-2, 2), 3);
                v.push(x);
            }
        }
        Class::Uniform => {
            for _ in 0..len {
                v.push(q(rng.range(-(1 << 12), 1 << 12), 8));
            }
        }
        Class::SmallInt => {
            for _ in 0..len {
                v.push(rng.range(-3, 3) as f64);
            }
        }
        Class::Const => {
            let c = *rng.pick(&[1.0, -2.5, 100.0, 0.375, 7.0, -0.5]);
            v.resize(len, c);
        }
        Class::Zero => v.resize(len, 0.0),
        Class::RampUp => {
            let x0 = q(rng.range(-64, 64), 2);
            let d = q(rng.range(1, 16), 3);
            for i in 0..len {
                v.push(x0 + d * i as f64);
            }
        }
        Class::RampDown => {
            let x0 = q(rng.range(-64, 64), 2);
            let d = q(rng.range(1, 16), 3);
            for i in 0..len {
                v.push(x0 - d * i as f64);
            }
        }
        Class::Step => {
            let a = q(rng.range(-32, 32), 2);
            let b = a + q(rng.range(1, 64), 2) * if rng.coin() { 1.0 } else { -1.0 };
            let at = rng.usize(0, len.max(1) - 1);
            for i in 0..len {
                v.push(if i < at { a } else { b });
            }
        }
        Class::Spike => {
            // a walk with one large value that enters and later leaves the window
            let mut x = q(rng.range(-16, 16), 3);
            let at = rng.usize(0, (len.max(2) - 1).min(3 * n));
            let big = q(rng.range(1 << 10, 1 << 14), 2) * if rng.coin() { 1.0 } else { -1.0 };
            for i in 0..len {
                x += q(rng.range(-2, 2), 3);
                v.push(if i == at { big } else { x });
            }
        }
        Class::JumpOldest => {
            // piecewise: every ~n steps a jump, so jumps sit on the oldest segment of the
            // window at regular intervals
            let mut x = q(rng.range(-16, 16), 2);
            let period = n + rng.usize(0, 2);
            for i in 0..len {
                if i % period == 1 {
                    x += q(rng.range(64, 4096), 2) * if rng.coin() { 1.0 } else { -1.0 };
                } else {
                    x += q(rng.range(-1, 1), 3);
                }
                v.push(x);
            }
        }
        Class::VolatileThenFlat => {
            let flat_from = len.saturating_sub(n + 1 + rng.usize(0, 2 * n)).min(len);
            let c = *rng.pick(&[1.0, 0.0, -3.25, 1000.0, 0.125]);
            for i in 0..len {
                if i < flat_from {
                    v.push(q(rng.range(-(1 << 14), 1 << 14), 6));
                } else {
                    v.push(c);
                }
            }
        }
        Class::Blocks => {
            let mut i = 0;
            let mut x = q(rng.range(-64, 64), 2);
            while i < len {
                let bl = rng.usize(1, 2 * n + 2);
                let mode = rng.below(3);
                for _ in 0..bl {
                    if i >= len {
                        break;
                    }
                    match mode {
                        0 => x = q(rng.range(-(1 << 10), 1 << 10), 4),
                        1 => {}
                        _ => x += q(rng.range(-1, 1), 10),
                    }
                    v.push(x);
                    i += 1;
                }
            }
        }
        Class::OffsetSmallVar => {
            let base = q(rng.range(1 << 12, 1 << 16), 0);
            for _ in 0..len {
                v.push(base + q(rng.range(-8, 8), 4));
            }
        }
        Class::LinearExact => {
            let x0 = *rng.pick(&[1000.0, -1000.0, 0.0, 4096.0]);
            let d = *rng.pick(&[1.0, -1.0, 0.5, -0.25, 3.0]);
            for i in 0..len {
                v.push(x0 + d * i as f64);
            }
        }
        Class::ZeroSum => {
            // values whose running/windowed sums hit exactly 0 repeatedly
            let pat: &[f64] = match rng.below(3) {
                0 => &[1.0, -1.0],
                1 => &[2.0, -1.0, -1.0],
                _ => &[0.0, 3.0, -3.0, 0.0],
            };
            for i in 0..len {
                v.push(pat[i % pat.len()]);
            }
        }
        Class::Alternating => {
            let a = q(rng.range(1, 64), 3);
            let off = *rng.pick(&[0.0, 1.0, -5.0, 100.0]);
            for i in 0..len {
                v.push(off + if i % 2 == 0 { a } else { -a });
            }
        }
        Class::ExtremumCycle => {
            // a sawtooth of period n: the value that is evicted is always the current extremum
            let up = rng.coin();
            let p = n.max(2);
            for i in 0..len {
                let k = (i % p) as f64;
                v.push(if up { k } else { -k });
            }
        }
        Class::Sine => {
            let period = rng.usize(2, 4 * n + 4) as f64;
            let amp = q(rng.range(1, 256), 4);
            for i in 0..len {
                let s = (i as f64 * std::f64::consts::TAU / period).sin() * amp;
                // snap to a 2^-12 grid so that the value is a short dyadic
                v.push((s * 4096.0).round() / 4096.0);
            }
        }
    }
    v
}

/// map a stream into the strictly positive domain (Drawdown, LnReturn): x -> 2^-6 + |x| kept dyadic
pub fn positive(xs: &[f64]) -> Vec<f64> {
    xs.iter().map(|x| x.abs() + 0.015625).collect()
}
/// map a stream to non-zero values
pub fn nonzero(xs: &[f64]) -> Vec<f64> {
    xs.iter()
        .map(|x| if *x == 0.0 { 0.5 } else { *x })
        .collect()
}

/// positive stream whose values and non-zero steps stay within three decades (C16 drift clause)
pub fn three_decades(len: usize, rng: &mut Rng, nice: bool) -> Vec<f64> {
    // values in [1, 1000], steps multiples of 1/8 => step sizes in [0.125, ~100]: three decades
    let mut v = Vec::with_capacity(len);
    let mut x = 100.0;
    for _ in 0..len {
        let step = rng.range(-800, 800) as f64 / 8.0;
        let mut y: f64 = x + step;
        if y < 1.0 {
            y = 1.0 + (1.0 - y).min(998.0);
        }
        if y > 1000.0 {
            y = 1000.0 - (y - 1000.0).min(998.0);
        }
        x = y;
        if nice {
            v.push(x);
        } else {
            // same stream on a "not nice" grid: multiples of 0.1 (not dyadic)
            v.push(((x * 8.0).round() / 8.0) * 0.1 * 10.0 + 0.1 * ((rng.below(3)) as f64));
        }
    }
    v
}

pub fn hash_f64s(xs: &[f64]) -> u64 {
    let mut h = 0xcbf2_9ce4_8422_2325u64;
    for x in xs {
        h = (h ^ x.to_bits()).wrapping_mul(0x100_0000_01B3);
        h ^= h >> 29;
    }
    h
}
