//! Harness-side `View` implementations that let monitors observe the real code at its only
//! boundary (the `View` trait): `Dyn` (type-erased real view), `Probe`, `Script`, `Tap`;
//! and the `Spec` language that builds arbitrary trees of the *real* views at run time.

use crate::scalar::Scalar;
use sliding_features::pure_functions::*;
use sliding_features::rolling::*;
use sliding_features::sliding_windows::*;
use sliding_features::View;
use std::cell::RefCell;
use std::rc::Rc;

pub trait ObjView<T: Scalar>: View<T> {
    fn clone_box(&self) -> Option<Box<dyn ObjView<T>>>;
    /// (mean, variance) getters of WelfordOnline / WelfordRolling
    fn aux(&self) -> Option<(T, T)> {
        None
    }
}

pub struct Dyn<T: Scalar>(pub Box<dyn ObjView<T>>);

impl<T: Scalar> View<T> for Dyn<T> {
    #[inline]
    fn update(&mut self, val: T) {
        self.0.update(val)
    }
    #[inline]
    fn last(&self) -> Option<T> {
        self.0.last()
    }
}
impl<T: Scalar> Dyn<T> {
    pub fn try_clone(&self) -> Option<Dyn<T>> {
        self.0.clone_box().map(Dyn)
    }
    pub fn aux(&self) -> Option<(T, T)> {
        self.0.aux()
    }
}
impl<T: Scalar> Clone for Dyn<T> {
    fn clone(&self) -> Self {
        self.try_clone()
            .expect("harness: clone of a tree that contains a view without Clone (Add)")
    }
}
impl<T: Scalar> std::fmt::Debug for Dyn<T> {
    fn fmt(&self, f: &mut std::fmt::Formatter<'_>) -> std::fmt::Result {
        write!(f, "Dyn")
    }
}

macro_rules! obj {
    ($($ty:ty),* $(,)?) => { $(
        impl<T: Scalar> ObjView<T> for $ty {
            fn clone_box(&self) -> Option<Box<dyn ObjView<T>>> { Some(Box::new(self.clone())) }
        }
    )* };
}
obj!(
    Echo<T>,
    Constant<T>,
    Subtract<T, Dyn<T>, Dyn<T>>,
    Multiply<T, Dyn<T>, Dyn<T>>,
    Divide<T, Dyn<T>, Dyn<T>>,
    GTE<T, Dyn<T>>,
    LTE<T, Dyn<T>>,
    Tanh<T, Dyn<T>>,
    Drawdown<T, Dyn<T>>,
    LnReturn<T, Dyn<T>>,
    Sma<T, Dyn<T>>,
    Ema<T, Dyn<T>>,
    Alma<T, Dyn<T>>,
    Cumulative<T, Dyn<T>>,
    Min<T, Dyn<T>>,
    Max<T, Dyn<T>>,
    HLNormalizer<T, Dyn<T>>,
    Roc<T, Dyn<T>>,
    BinaryEntropy<T, Dyn<T>>,
    Vst<T, Dyn<T>>,
    Vsct<T, Dyn<T>>,
    Rsi<T, Dyn<T>>,
    MyRSI<T, Dyn<T>>,
    CenterOfGravity<T, Dyn<T>>,
    CorrelationTrendIndicator<T, Dyn<T>>,
    NoiseEliminationTechnology<T, Dyn<T>>,
    CyberCycle<T, Dyn<T>>,
    LaguerreRSI<T, Dyn<T>>,
    LaguerreFilter<T, Dyn<T>>,
    ReFlex<T, Dyn<T>>,
    TrendFlex<T, Dyn<T>>,
    SuperSmoother<T, Dyn<T>>,
    RoofingFilter<T, Dyn<T>>,
    PolarizedFractalEfficiency<T, Dyn<T>, Dyn<T>>,
    EhlersFisherTransform<T, Dyn<T>, Dyn<T>>,
);
// `Add` is the one view that does not derive Clone
impl<T: Scalar> ObjView<T> for Add<T, Dyn<T>, Dyn<T>> {
    fn clone_box(&self) -> Option<Box<dyn ObjView<T>>> {
        None
    }
}
impl<T: Scalar> ObjView<T> for WelfordOnline<T, Dyn<T>> {
    fn clone_box(&self) -> Option<Box<dyn ObjView<T>>> {
        Some(Box::new(self.clone()))
    }
    fn aux(&self) -> Option<(T, T)> {
        Some((self.mean(), self.variance()))
    }
}
impl<T: Scalar> ObjView<T> for WelfordRolling<T, Dyn<T>> {
    fn clone_box(&self) -> Option<Box<dyn ObjView<T>>> {
        Some(Box::new(self.clone()))
    }
    fn aux(&self) -> Option<(T, T)> {
        Some((self.mean(), self.variance()))
    }
}

// ---------------------------------------------------------------------------------------------
// Probe: behaves like Echo, logs every value it is handed
pub type Log<T> = Rc<RefCell<Vec<T>>>;

#[derive(Clone)]
pub struct Probe<T: Scalar> {
    pub log: Log<T>,
    out: Option<T>,
}
impl<T: Scalar> View<T> for Probe<T> {
    fn update(&mut self, val: T) {
        self.log.borrow_mut().push(val);
        self.out = Some(val);
    }
    fn last(&self) -> Option<T> {
        self.out
    }
}
impl<T: Scalar> ObjView<T> for Probe<T> {
    fn clone_box(&self) -> Option<Box<dyn ObjView<T>>> {
        Some(Box::new(self.clone()))
    }
}

// Script: `last()` replays a prescribed sequence, whatever it is fed
#[derive(Clone)]
pub struct Script<T: Scalar> {
    pub outs: Rc<Vec<Option<T>>>,
    pub fed: Log<T>,
    pos: usize,
}
impl<T: Scalar> View<T> for Script<T> {
    fn update(&mut self, val: T) {
        self.fed.borrow_mut().push(val);
        self.pos += 1;
    }
    fn last(&self) -> Option<T> {
        if self.pos == 0 {
            None
        } else {
            self.outs.get(self.pos - 1).copied().flatten()
        }
    }
}
impl<T: Scalar> ObjView<T> for Script<T> {
    fn clone_box(&self) -> Option<Box<dyn ObjView<T>>> {
        Some(Box::new(self.clone()))
    }
}

// Tap: logs (update argument, last() right after the update) of the node it wraps
pub type TapLog<T> = Rc<RefCell<Vec<(T, Option<T>)>>>;
#[derive(Clone)]
pub struct Tap<T: Scalar> {
    inner: Dyn<T>,
    pub log: TapLog<T>,
}
impl<T: Scalar> View<T> for Tap<T> {
    fn update(&mut self, val: T) {
        self.inner.update(val);
        let l = self.inner.last();
        self.log.borrow_mut().push((val, l));
    }
    fn last(&self) -> Option<T> {
        self.inner.last()
    }
}
impl<T: Scalar> ObjView<T> for Tap<T> {
    fn clone_box(&self) -> Option<Box<dyn ObjView<T>>> {
        self.inner.try_clone().map(|i| {
            Box::new(Tap {
                inner: i,
                log: self.log.clone(),
            }) as Box<dyn ObjView<T>>
        })
    }
    fn aux(&self) -> Option<(T, T)> {
        self.inner.aux()
    }
}

// ---------------------------------------------------------------------------------------------
#[derive(Clone, Copy, Debug, PartialEq)]
pub enum Kind {
    Sma(usize),
    Ema(usize),
    EmaAlpha(usize, f64),
    Alma(usize),
    AlmaCustom(usize, f64, f64),
    Cumulative(usize),
    Min(usize),
    Max(usize),
    Welford(usize),
    HL(usize),
    Roc(usize),
    BinEnt(usize),
    Vst(usize),
    Vsct(usize),
    Rsi(usize),
    MyRsi(usize),
    Cog(usize),
    Cti(usize),
    Net(usize),
    Cyber(usize),
    LagRsi(usize),
    ReFlex(usize),
    TrendFlex(usize),
    SuperSmoother(usize),
    LagFilter(f64),
    Roofing(usize, usize),
    Gte(f64),
    Lte(f64),
    Tanh,
    Drawdown,
    LnReturn,
    WelfordRolling,
}

#[derive(Clone, Copy, Debug, PartialEq, Eq, Hash)]
pub enum BinK {
    Add,
    Subtract,
    Multiply,
    Divide,
}
#[derive(Clone, Copy, Debug, PartialEq, Eq, Hash)]
pub enum MaK {
    Pfe,
    Eft,
}

#[derive(Clone, Debug, PartialEq)]
pub enum Spec {
    Echo,
    Constant(f64),
    Probe(usize),
    Script(usize),
    Tap(usize, Box<Spec>),
    /// the inner view has already been given these values when whatever wraps it is constructed
    Warm(Vec<f64>, Box<Spec>),
    Un(Kind, Box<Spec>),
    Bin(BinK, Box<Spec>, Box<Spec>),
    /// (kind, window, view, moving average)
    Ma(MaK, usize, Box<Spec>, Box<Spec>),
}

impl Spec {
    pub fn un(k: Kind, inner: Spec) -> Spec {
        Spec::Un(k, Box::new(inner))
    }
    pub fn leaf(k: Kind) -> Spec {
        Spec::Un(k, Box::new(Spec::Echo))
    }
    pub fn bin(k: BinK, a: Spec, b: Spec) -> Spec {
        Spec::Bin(k, Box::new(a), Box::new(b))
    }
    pub fn ma(k: MaK, n: usize, v: Spec, m: Spec) -> Spec {
        Spec::Ma(k, n, Box::new(v), Box::new(m))
    }
    pub fn tap(id: usize, s: Spec) -> Spec {
        Spec::Tap(id, Box::new(s))
    }
    pub fn contains_add(&self) -> bool {
        match self {
            Spec::Bin(BinK::Add, _, _) => true,
            Spec::Bin(_, a, b) => a.contains_add() || b.contains_add(),
            Spec::Un(_, a) | Spec::Tap(_, a) | Spec::Warm(_, a) => a.contains_add(),
            Spec::Ma(_, _, a, b) => a.contains_add() || b.contains_add(),
            _ => false,
        }
    }
    /// name of the outermost view
    pub fn top(&self) -> String {
        match self {
            Spec::Echo => "Echo".into(),
            Spec::Constant(_) => "Constant".into(),
            Spec::Probe(_) => "Probe".into(),
            Spec::Script(_) => "Script".into(),
            Spec::Tap(_, s) | Spec::Warm(_, s) => s.top(),
            Spec::Un(k, _) => k.name().into(),
            Spec::Bin(k, _, _) => format!("{:?}", k),
            Spec::Ma(MaK::Pfe, ..) => "PolarizedFractalEfficiency".into(),
            Spec::Ma(MaK::Eft, ..) => "EhlersFisherTransform".into(),
        }
    }
    pub fn show(&self) -> String {
        match self {
            Spec::Echo => "Echo".into(),
            Spec::Constant(c) => format!("Constant({})", c),
            Spec::Probe(i) => format!("Probe#{}", i),
            Spec::Script(i) => format!("Script#{}", i),
            Spec::Tap(_, s) => s.show(),
            Spec::Warm(w, s) => format!("{} already given {} values", s.show(), w.len()),
            Spec::Un(k, s) => format!("{}<{}>", k.show(), s.show()),
            Spec::Bin(k, a, b) => format!("{:?}<{}, {}>", k, a.show(), b.show()),
            Spec::Ma(k, n, v, m) => format!("{:?}({})<{}, ma={}>", k, n, v.show(), m.show()),
        }
    }
}

impl Kind {
    pub fn name(&self) -> &'static str {
        use Kind::*;
        match self {
            Sma(_) => "Sma",
            Ema(_) | EmaAlpha(..) => "Ema",
            Alma(_) | AlmaCustom(..) => "Alma",
            Cumulative(_) => "Cumulative",
            Min(_) => "Min",
            Max(_) => "Max",
            Welford(_) => "WelfordOnline",
            HL(_) => "HLNormalizer",
            Roc(_) => "Roc",
            BinEnt(_) => "BinaryEntropy",
            Vst(_) => "Vst",
            Vsct(_) => "Vsct",
            Rsi(_) => "Rsi",
            MyRsi(_) => "MyRSI",
            Cog(_) => "CenterOfGravity",
            Cti(_) => "CorrelationTrendIndicator",
            Net(_) => "NoiseEliminationTechnology",
            Cyber(_) => "CyberCycle",
            LagRsi(_) => "LaguerreRSI",
            ReFlex(_) => "ReFlex",
            TrendFlex(_) => "TrendFlex",
            SuperSmoother(_) => "SuperSmoother",
            LagFilter(_) => "LaguerreFilter",
            Roofing(..) => "RoofingFilter",
            Gte(_) => "GTE",
            Lte(_) => "LTE",
            Tanh => "Tanh",
            Drawdown => "Drawdown",
            LnReturn => "LnReturn",
            WelfordRolling => "WelfordRolling",
        }
    }
    pub fn show(&self) -> String {
        format!("{:?}", self)
    }
    /// window length (first usize parameter), if the kind has one
    pub fn n(&self) -> Option<usize> {
        use Kind::*;
        match *self {
            Sma(n) | Ema(n) | EmaAlpha(n, _) | Alma(n) | AlmaCustom(n, ..) | Cumulative(n)
            | Min(n) | Max(n) | Welford(n) | HL(n) | Roc(n) | BinEnt(n) | Vst(n) | Vsct(n)
            | Rsi(n) | MyRsi(n) | Cog(n) | Cti(n) | Net(n) | Cyber(n) | LagRsi(n) | ReFlex(n)
            | TrendFlex(n) | SuperSmoother(n) | Roofing(n, _) => Some(n),
            _ => None,
        }
    }
}

pub struct Env<T: Scalar> {
    pub probes: Vec<Log<T>>,
    pub scripts: Vec<(Rc<Vec<Option<T>>>, Log<T>)>,
    pub taps: Vec<TapLog<T>>,
}
impl<T: Scalar> Default for Env<T> {
    fn default() -> Self {
        Env {
            probes: vec![],
            scripts: vec![],
            taps: vec![],
        }
    }
}
impl<T: Scalar> Env<T> {
    pub fn new() -> Self {
        Self::default()
    }
    pub fn add_script(&mut self, outs: Vec<Option<T>>) -> usize {
        self.scripts
            .push((Rc::new(outs), Rc::new(RefCell::new(vec![]))));
        self.scripts.len() - 1
    }
    fn probe(&mut self, i: usize) -> Log<T> {
        while self.probes.len() <= i {
            self.probes.push(Rc::new(RefCell::new(vec![])));
        }
        self.probes[i].clone()
    }
    fn tap(&mut self, i: usize) -> TapLog<T> {
        while self.taps.len() <= i {
            self.taps.push(Rc::new(RefCell::new(vec![])));
        }
        self.taps[i].clone()
    }
}

pub fn build<T: Scalar>(spec: &Spec, env: &mut Env<T>) -> Dyn<T> {
    fn bx<T: Scalar, V: ObjView<T> + 'static>(v: V) -> Dyn<T> {
        Dyn(Box::new(v))
    }
    let t = |f: f64| T::of(f);
    match spec {
        Spec::Echo => bx(Echo::<T>::new()),
        Spec::Constant(c) => bx(Constant::new(t(*c))),
        Spec::Probe(i) => bx(Probe {
            log: env.probe(*i),
            out: None,
        }),
        Spec::Script(i) => {
            let (outs, fed) = env.scripts[*i].clone();
            bx(Script { outs, fed, pos: 0 })
        }
        Spec::Warm(w, s) => {
            let mut inner = build(s, env);
            for x in w {
                inner.update(t(*x));
            }
            inner
        }
        Spec::Tap(i, s) => {
            let inner = build(s, env);
            bx(Tap {
                inner,
                log: env.tap(*i),
            })
        }
        Spec::Bin(k, a, b) => {
            let a = build(a, env);
            let b = build(b, env);
            match k {
                BinK::Add => bx(Add::new(a, b)),
                BinK::Subtract => bx(Subtract::new(a, b)),
                BinK::Multiply => bx(Multiply::new(a, b)),
                BinK::Divide => bx(Divide::new(a, b)),
            }
        }
        Spec::Ma(k, n, v, m) => {
            let v = build(v, env);
            let m = build(m, env);
            match k {
                MaK::Pfe => bx(PolarizedFractalEfficiency::new(v, m, *n)),
                MaK::Eft => bx(EhlersFisherTransform::new(v, m, *n)),
            }
        }
        Spec::Un(k, s) => {
            let v = build(s, env);
            use Kind::*;
            match *k {
                Sma(n) => bx(sliding_features::sliding_windows::Sma::new(v, n)),
                Ema(n) => bx(sliding_features::sliding_windows::Ema::new(v, n)),
                EmaAlpha(n, a) => bx(sliding_features::sliding_windows::Ema::with_alpha(v, n, t(a))),
                Alma(n) => bx(sliding_features::sliding_windows::Alma::new(v, n)),
                AlmaCustom(n, s, o) => {
                    bx(sliding_features::sliding_windows::Alma::new_custom(v, n, t(s), t(o)))
                }
                Cumulative(n) => bx(sliding_features::sliding_windows::Cumulative::new(v, n)),
                Min(n) => bx(sliding_features::sliding_windows::Min::new(v, n)),
                Max(n) => bx(sliding_features::sliding_windows::Max::new(v, n)),
                Welford(n) => bx(WelfordOnline::new(v, n)),
                HL(n) => bx(HLNormalizer::new(v, n)),
                Roc(n) => bx(sliding_features::sliding_windows::Roc::new(v, n)),
                BinEnt(n) => bx(BinaryEntropy::new(v, n)),
                Vst(n) => bx(sliding_features::sliding_windows::Vst::new(v, n)),
                Vsct(n) => bx(sliding_features::sliding_windows::Vsct::new(v, n)),
                Rsi(n) => bx(sliding_features::sliding_windows::Rsi::new(v, n)),
                MyRsi(n) => bx(MyRSI::new(v, n)),
                Cog(n) => bx(CenterOfGravity::new(v, n)),
                Cti(n) => bx(CorrelationTrendIndicator::new(v, n)),
                Net(n) => bx(NoiseEliminationTechnology::new(v, n)),
                Cyber(n) => bx(CyberCycle::new(v, n)),
                LagRsi(n) => bx(LaguerreRSI::new(v, n)),
                ReFlex(n) => bx(sliding_features::sliding_windows::ReFlex::new(v, n)),
                TrendFlex(n) => bx(sliding_features::sliding_windows::TrendFlex::new(v, n)),
                SuperSmoother(n) => bx(sliding_features::sliding_windows::SuperSmoother::new(v, n)),
                LagFilter(g) => bx(LaguerreFilter::new(v, t(g))),
                Roofing(n, m) => bx(RoofingFilter::new(v, n, m)),
                Gte(c) => bx(GTE::new(v, t(c))),
                Lte(c) => bx(LTE::new(v, t(c))),
                Tanh => bx(sliding_features::pure_functions::Tanh::new(v)),
                Drawdown => bx(sliding_features::rolling::Drawdown::new(v)),
                LnReturn => bx(sliding_features::rolling::LnReturn::new(v)),
                WelfordRolling => bx(sliding_features::rolling::WelfordRolling::new(v)),
            }
        }
    }
}

/// build without probes/scripts/taps
pub fn build_plain<T: Scalar>(spec: &Spec) -> Dyn<T> {
    let mut env = Env::new();
    build(spec, &mut env)
}
