//! sfv — runtime monitors for sliding_features (see /verif/DESIGN.md)
//!
//!   sfv <Cnn> <quick|thorough>        run the monitor of one property
//!   sfv <Cnn> <tier> --sub            (internal) dev-profile pass, machine-readable output
//!   sfv replay <file>                 re-execute the trial recorded in a replay file

mod alloc;
mod catalogue;
mod dynview;
mod gen;
mod json;
mod mon;
mod oracle;
mod report;
mod scalar;
mod xq;

use report::{Cfg, Profile, Tier};
use std::time::Instant;

#[global_allocator]
static GLOBAL: alloc::Counting = alloc::Counting;

fn verif_dir() -> String {
    std::env::var("SFV_VERIF_DIR").unwrap_or_else(|_| "/verif".to_string())
}

fn main() {
    let args: Vec<String> = std::env::args().skip(1).collect();
    if args.len() < 2 {
        eprintln!("usage: sfv <Cnn> <quick|thorough> | sfv replay <file>");
        std::process::exit(64);
    }
    report::install_panic_hook();
    if args[0] == "replay" {
        std::process::exit(replay(&args[1]));
    }
    let id = args[0].as_str();
    let tier = match args[1].as_str() {
        "quick" => Tier::Quick,
        "thorough" => Tier::Thorough,
        o => {
            eprintln!("unknown tier {}", o);
            std::process::exit(64);
        }
    };
    let sub = args.iter().any(|a| a == "--sub");
    let seed: u64 = std::env::var("VERIF_SEED")
        .ok()
        .and_then(|s| s.trim().parse::<i64>().ok())
        .map(|i| i as u64)
        .unwrap_or(1);
    let threads: usize = std::env::var("SFV_THREADS")
        .ok()
        .and_then(|s| s.parse().ok())
        .unwrap_or_else(|| std::thread::available_parallelism().map(|n| n.get()).unwrap_or(8));
    let Some(m) = mon::by_id(id) else {
        eprintln!("no monitor for {}", id);
        std::process::exit(64);
    };
    let cfg = Cfg {
        tier,
        seed,
        profile: Profile::current(),
        threads,
    };
    watchdog(tier, id.to_string());
    if tier == Tier::Quick {
        xq::SECONDS_PER_TRIAL.store(120, std::sync::atomic::Ordering::Relaxed);
    }
    let started = Instant::now();
    let mut st = report::run_trials(m.as_ref(), &cfg);
    if sub {
        report::emit_sub(&st);
        std::process::exit(0);
    }
    let mut dev_ran = false;
    if m.dev_pass() && cfg.profile == Profile::Release {
        let dev = std::env::var("SFV_DEV_BIN").unwrap_or_default();
        if dev.is_empty() || !std::path::Path::new(&dev).exists() {
            println!("INCONCLUSIVE property={} dev-profile binary missing (SFV_DEV_BIN)", id);
            std::process::exit(2);
        }
        let out = std::process::Command::new(&dev)
            .arg(id)
            .arg(tier.name())
            .arg("--sub")
            .env("VERIF_SEED", format!("{}", seed as i64))
            .output();
        match out {
            Ok(o) => {
                let text = String::from_utf8_lossy(&o.stdout);
                match report::parse_sub(&text) {
                    Some(ds) => {
                        report::merge_stats(&mut st, ds);
                        dev_ran = true;
                    }
                    None => {
                        println!(
                            "INCONCLUSIVE property={} dev-profile pass did not complete (status {:?})\n{}",
                            id,
                            o.status.code(),
                            String::from_utf8_lossy(&o.stderr)
                        );
                        std::process::exit(2);
                    }
                }
            }
            Err(e) => {
                println!("INCONCLUSIVE property={} cannot run dev binary: {}", id, e);
                std::process::exit(2);
            }
        }
    }
    let f = report::finish(m.as_ref(), &cfg, st, started, &verif_dir(), dev_ran);
    std::process::exit(f.exit);
}

/// generous wall-clock watchdog; firing is inconclusive, never a violation
fn watchdog(tier: Tier, id: String) {
    let limit = match tier {
        Tier::Quick => 1500,
        Tier::Thorough => 4 * 3600,
    };
    std::thread::spawn(move || {
        std::thread::sleep(std::time::Duration::from_secs(limit));
        println!("INCONCLUSIVE property={} wall-clock watchdog ({} s) fired", id, limit);
        std::process::exit(2);
    });
}

fn replay(path: &str) -> i32 {
    let Ok(text) = std::fs::read_to_string(path) else {
        eprintln!("cannot read {}", path);
        return 64;
    };
    let mut kv = std::collections::HashMap::new();
    for l in text.lines() {
        if l.starts_with("---") {
            break;
        }
        if let Some((k, v)) = l.split_once('=') {
            kv.insert(k.trim().to_string(), v.trim().to_string());
        }
    }
    let get = |k: &str| kv.get(k).cloned().unwrap_or_default();
    let profile = get("profile");
    if profile != Profile::current().name() {
        // re-exec in the other profile's binary
        let var = if profile == "dev" { "SFV_DEV_BIN" } else { "SFV_REL_BIN" };
        if let Ok(bin) = std::env::var(var) {
            let st = std::process::Command::new(bin).arg("replay").arg(path).status();
            return st.ok().and_then(|s| s.code()).unwrap_or(2);
        }
        eprintln!("replay needs the {} binary ({} not set); running in {}", profile, var, Profile::current().name());
    }
    let id = get("property");
    let Some(m) = mon::by_id(&id) else {
        eprintln!("no monitor for {}", id);
        return 64;
    };
    let cfg = Cfg {
        tier: if get("tier") == "thorough" { Tier::Thorough } else { Tier::Quick },
        seed: get("seed").parse::<u64>().unwrap_or(1),
        profile: Profile::current(),
        threads: 1,
    };
    let trial: u64 = get("trial").parse().unwrap_or(0);
    let mut out = report::TrialOut::default();
    out.trial = trial;
    xq::reset();
    let r = report::guarded(|| m.trial(&cfg, trial, &mut out));
    if let Err(p) = r {
        println!("trial panicked outside the monitor's traps: {}", p);
    }
    if out.viols.is_empty() {
        println!("replay: trial {} of {} did not reproduce a violation ({} comparisons)", trial, id, out.comparisons);
        0
    } else {
        for v in &out.viols {
            println!("replay: {} {}\n{}", id, v.sig(), v.detail);
        }
        println!("VIOLATION property={} replay={}", id, path);
        1
    }
}
