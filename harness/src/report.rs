//! Trial runner, verdict bookkeeping, evidence, replay files, known-findings matching.

use crate::json::J;
use std::collections::{BTreeMap, BTreeSet, HashSet};
use std::io::Write;
use std::panic::{catch_unwind, AssertUnwindSafe};
use std::sync::atomic::{AtomicU64, Ordering};
use std::sync::Mutex;
use std::time::Instant;

#[derive(Clone, Copy, Debug, PartialEq, Eq)]
pub enum Tier {
    Quick,
    Thorough,
}
impl Tier {
    pub fn name(&self) -> &'static str {
        match self {
            Tier::Quick => "quick",
            Tier::Thorough => "thorough",
        }
    }
    pub fn pick<X>(&self, q: X, t: X) -> X {
        match self {
            Tier::Quick => q,
            Tier::Thorough => t,
        }
    }
}
#[derive(Clone, Copy, Debug, PartialEq, Eq)]
pub enum Profile {
    Release,
    Dev,
}
impl Profile {
    pub fn current() -> Profile {
        if cfg!(debug_assertions) {
            Profile::Dev
        } else {
            Profile::Release
        }
    }
    pub fn name(&self) -> &'static str {
        match self {
            Profile::Release => "release",
            Profile::Dev => "dev",
        }
    }
}

#[derive(Clone, Debug)]
pub struct Cfg {
    pub tier: Tier,
    pub seed: u64,
    pub profile: Profile,
    pub threads: usize,
}

#[derive(Clone, Debug)]
pub struct Viol {
    pub view: String,
    pub clause: String,
    pub predicate: String,
    pub detail: String,
    pub trial: u64,
    pub profile: String,
}
impl Viol {
    pub fn sig(&self) -> String {
        format!("view={} clause={} predicate={}", self.view, self.clause, self.predicate)
    }
}

#[derive(Default)]
pub struct TrialOut {
    pub cells: BTreeMap<String, u64>,
    pub counters: BTreeMap<String, u64>,
    pub maxima: BTreeMap<String, f64>,
    pub viols: Vec<Viol>,
    pub inconclusive: Vec<String>,
    pub samples: Vec<String>,
    pub key: Option<u64>,
    pub comparisons: u64,
    pub trial: u64,
}
impl TrialOut {
    /// a comparison (or `n` of them) was actually made by the oracle in coverage cell `name`
    pub fn cell(&mut self, name: &str, n: u64) {
        if n > 0 {
            *self.cells.entry(name.to_string()).or_insert(0) += n;
            self.comparisons += n;
        }
    }
    pub fn count(&mut self, name: &str, n: u64) {
        if n > 0 {
            *self.counters.entry(name.to_string()).or_insert(0) += n;
        }
    }
    pub fn maxi(&mut self, name: &str, v: f64) {
        let e = self.maxima.entry(name.to_string()).or_insert(f64::NEG_INFINITY);
        if v > *e {
            *e = v;
        }
    }
    pub fn violation(&mut self, view: &str, clause: &str, predicate: &str, detail: String) {
        self.viols.push(Viol {
            view: view.to_string(),
            clause: clause.to_string(),
            predicate: predicate.to_string(),
            detail,
            trial: self.trial,
            profile: Profile::current().name().to_string(),
        });
    }
    pub fn inconclusive(&mut self, why: &str) {
        self.inconclusive.push(why.to_string());
    }
    pub fn sample(&mut self, s: String) {
        if self.samples.len() < 2 {
            self.samples.push(s);
        }
    }
    pub fn key(&mut self, h: u64) {
        self.key = Some(h);
    }
}

pub trait Monitor: Sync {
    fn id(&self) -> &'static str;
    /// number of trials for this configuration (may depend on tier and profile)
    fn plan(&self, cfg: &Cfg) -> u64;
    fn trial(&self, cfg: &Cfg, idx: u64, out: &mut TrialOut);
    /// coverage cells that must have seen at least one comparison (release + dev merged)
    fn required_cells(&self, cfg: &Cfg) -> Vec<String>;
    fn rule(&self) -> String;
    fn assumptions(&self) -> Vec<String>;
    /// whether the dev-profile binary must be run as well
    fn dev_pass(&self) -> bool {
        false
    }
    fn design_ref(&self) -> &'static str {
        ""
    }
}

#[derive(Default)]
pub struct Stats {
    pub trials: u64,
    pub comparisons: u64,
    pub cells: BTreeMap<String, u64>,
    pub counters: BTreeMap<String, u64>,
    pub maxima: BTreeMap<String, f64>,
    pub viols: Vec<Viol>,
    pub viol_count: u64,
    pub inconclusive: BTreeMap<String, u64>,
    pub samples: Vec<String>,
    pub keys: HashSet<u64>,
    pub nontrivial_nokey: u64,
    pub harness_panics: Vec<String>,
}
impl Stats {
    fn merge_trial(&mut self, t: TrialOut) {
        self.trials += 1;
        self.comparisons += t.comparisons;
        for (k, v) in t.cells {
            *self.cells.entry(k).or_insert(0) += v;
        }
        for (k, v) in t.counters {
            *self.counters.entry(k).or_insert(0) += v;
        }
        for (k, v) in t.maxima {
            let e = self.maxima.entry(k).or_insert(f64::NEG_INFINITY);
            if v > *e {
                *e = v;
            }
        }
        for v in t.viols {
            self.viol_count += 1;
            // keep a bounded number of details per signature
            let same = self.viols.iter().filter(|x| x.sig() == v.sig()).count();
            if same < 3 && self.viols.len() < 200 {
                self.viols.push(v);
            }
        }
        for i in t.inconclusive {
            *self.inconclusive.entry(i).or_insert(0) += 1;
        }
        if t.comparisons > 0 {
            match t.key {
                Some(k) => {
                    self.keys.insert(k);
                }
                None => self.nontrivial_nokey += 1,
            }
        }
        for s in t.samples {
            if self.samples.len() < 6 {
                self.samples.push(s);
            }
        }
    }
}

thread_local! {
    pub static LAST_PANIC: std::cell::RefCell<Option<String>> = std::cell::RefCell::new(None);
}

pub fn install_panic_hook() {
    std::panic::set_hook(Box::new(|info| {
        let loc = info
            .location()
            .map(|l| format!("{}:{}", l.file(), l.line()))
            .unwrap_or_else(|| "?".into());
        let msg = if let Some(s) = info.payload().downcast_ref::<&str>() {
            s.to_string()
        } else if let Some(s) = info.payload().downcast_ref::<String>() {
            s.clone()
        } else {
            "<non-string panic>".to_string()
        };
        LAST_PANIC.with(|p| *p.borrow_mut() = Some(format!("{} @ {}", msg, loc)));
    }));
}

/// Run `f`, turning a panic into Err(message @ file:line).
pub fn guarded<R>(f: impl FnOnce() -> R) -> Result<R, String> {
    LAST_PANIC.with(|p| *p.borrow_mut() = None);
    match catch_unwind(AssertUnwindSafe(f)) {
        Ok(r) => Ok(r),
        Err(_) => Err(LAST_PANIC
            .with(|p| p.borrow_mut().take())
            .unwrap_or_else(|| "panic".into())),
    }
}

pub fn run_trials(m: &dyn Monitor, cfg: &Cfg) -> Stats {
    let n = m.plan(cfg);
    let next = AtomicU64::new(0);
    let stats = Mutex::new(Stats::default());
    std::thread::scope(|s| {
        for _ in 0..cfg.threads.max(1) {
            s.spawn(|| {
                let mut local = Stats::default();
                loop {
                    let i = next.fetch_add(1, Ordering::Relaxed);
                    if i >= n {
                        break;
                    }
                    crate::xq::reset();
                    let mut out = TrialOut::default();
                    out.trial = i;
                    let r = guarded(|| m.trial(cfg, i, &mut out));
                    if crate::xq::peak() > 0 {
                        out.maxi("exact_scalar_arena_entries_alive_at_once(max over trials)", crate::xq::peak() as f64);
                    }
                    if let Err(p) = r {
                        if p.starts_with("XQ-BLOWN") {
                            out.inconclusive("exact scalar size cap hit");
                        } else {
                            // a panic that escaped the monitor's own traps: the monitor could
                            // not finish this trial.  Recorded, never a verdict of this property
                            // (panics of the code under test are C15's business, trapped there).
                            out.inconclusive(&format!("escaped panic: {}", p));
                            local.harness_panics.push(format!("trial {}: {}", i, p));
                        }
                    }
                    local.merge_trial(out);
                }
                crate::xq::reset();
                let mut g = stats.lock().unwrap();
                merge_stats(&mut g, local);
            });
        }
    });
    stats.into_inner().unwrap()
}

pub fn merge_stats(g: &mut Stats, l: Stats) {
    g.trials += l.trials;
    g.comparisons += l.comparisons;
    for (k, v) in l.cells {
        *g.cells.entry(k).or_insert(0) += v;
    }
    for (k, v) in l.counters {
        *g.counters.entry(k).or_insert(0) += v;
    }
    for (k, v) in l.maxima {
        let e = g.maxima.entry(k).or_insert(f64::NEG_INFINITY);
        if v > *e {
            *e = v;
        }
    }
    g.viol_count += l.viol_count;
    for v in l.viols {
        let same = g.viols.iter().filter(|x| x.sig() == v.sig()).count();
        if same < 3 && g.viols.len() < 200 {
            g.viols.push(v);
        }
    }
    for (k, v) in l.inconclusive {
        *g.inconclusive.entry(k).or_insert(0) += v;
    }
    g.keys.extend(l.keys);
    g.nontrivial_nokey += l.nontrivial_nokey;
    for s in l.samples {
        if g.samples.len() < 6 {
            g.samples.push(s);
        }
    }
    g.harness_panics.extend(l.harness_panics);
}

// ---- sub-process protocol (dev-profile pass) -------------------------------------------------
fn enc(s: &str) -> String {
    s.replace('\\', "\\\\").replace('\n', "\\n").replace('\t', "\\t")
}
fn dec(s: &str) -> String {
    let mut out = String::new();
    let mut it = s.chars();
    while let Some(c) = it.next() {
        if c == '\\' {
            match it.next() {
                Some('n') => out.push('\n'),
                Some('t') => out.push('\t'),
                Some('\\') => out.push('\\'),
                Some(o) => out.push(o),
                None => {}
            }
        } else {
            out.push(c)
        }
    }
    out
}

pub fn emit_sub(st: &Stats) {
    let o = std::io::stdout();
    let mut o = o.lock();
    let _ = writeln!(o, "@@TRIALS\t{}\t{}\t{}", st.trials, st.comparisons, st.viol_count);
    for (k, v) in &st.cells {
        let _ = writeln!(o, "@@CELL\t{}\t{}", enc(k), v);
    }
    for (k, v) in &st.counters {
        let _ = writeln!(o, "@@COUNTER\t{}\t{}", enc(k), v);
    }
    for (k, v) in &st.maxima {
        let _ = writeln!(o, "@@MAX\t{}\t{:e}", enc(k), v);
    }
    for (k, v) in &st.inconclusive {
        let _ = writeln!(o, "@@INC\t{}\t{}", enc(k), v);
    }
    for k in &st.keys {
        let _ = writeln!(o, "@@KEY\t{}", k);
    }
    let _ = writeln!(o, "@@NOKEY\t{}", st.nontrivial_nokey);
    for s in &st.samples {
        let _ = writeln!(o, "@@SAMPLE\t{}", enc(s));
    }
    for p in &st.harness_panics {
        let _ = writeln!(o, "@@HPANIC\t{}", enc(p));
    }
    for v in &st.viols {
        let _ = writeln!(
            o,
            "@@VIOL\t{}\t{}\t{}\t{}\t{}\t{}",
            enc(&v.view),
            enc(&v.clause),
            enc(&v.predicate),
            v.trial,
            enc(&v.profile),
            enc(&v.detail)
        );
    }
    let _ = writeln!(o, "@@END");
}

pub fn parse_sub(text: &str) -> Option<Stats> {
    let mut st = Stats::default();
    let mut ended = false;
    for line in text.lines() {
        let f: Vec<&str> = line.split('\t').collect();
        match f[0] {
            "@@TRIALS" if f.len() >= 4 => {
                st.trials = f[1].parse().ok()?;
                st.comparisons = f[2].parse().ok()?;
                st.viol_count = f[3].parse().ok()?;
            }
            "@@CELL" if f.len() >= 3 => {
                st.cells.insert(dec(f[1]), f[2].parse().ok()?);
            }
            "@@COUNTER" if f.len() >= 3 => {
                st.counters.insert(dec(f[1]), f[2].parse().ok()?);
            }
            "@@MAX" if f.len() >= 3 => {
                st.maxima.insert(dec(f[1]), f[2].parse().ok()?);
            }
            "@@INC" if f.len() >= 3 => {
                st.inconclusive.insert(dec(f[1]), f[2].parse().ok()?);
            }
            "@@KEY" if f.len() >= 2 => {
                st.keys.insert(f[1].parse().ok()?);
            }
            "@@NOKEY" if f.len() >= 2 => st.nontrivial_nokey = f[1].parse().ok()?,
            "@@SAMPLE" if f.len() >= 2 => st.samples.push(dec(f[1])),
            "@@HPANIC" if f.len() >= 2 => st.harness_panics.push(dec(f[1])),
            "@@VIOL" if f.len() >= 7 => st.viols.push(Viol {
                view: dec(f[1]),
                clause: dec(f[2]),
                predicate: dec(f[3]),
                trial: f[4].parse().ok()?,
                profile: dec(f[5]),
                detail: dec(f[6]),
            }),
            "@@END" => ended = true,
            _ => {}
        }
    }
    if ended {
        Some(st)
    } else {
        None
    }
}

// ---- known findings ---------------------------------------------------------------------------
#[derive(Clone, Debug)]
pub struct Known {
    pub property: String,
    pub view: String,
    pub clause: String,
    pub predicate: String,
    pub what: String,
}

/// Parse `/verif/known_findings.txt`.  Lines:
///   known: property=C07 view=X clause=Y predicate=Z :: what fails
///   fixed: property=C02 <commit> <what failed>        (suppresses nothing)
pub fn load_known(path: &str) -> Vec<Known> {
    let mut v = vec![];
    let Ok(text) = std::fs::read_to_string(path) else {
        return v;
    };
    for line in text.lines() {
        let line = line.trim();
        let Some(rest) = line.strip_prefix("known:") else {
            continue;
        };
        let (head, what) = match rest.split_once("::") {
            Some((h, w)) => (h, w.trim().to_string()),
            None => (rest, String::new()),
        };
        let mut k = Known {
            property: String::new(),
            view: String::new(),
            clause: String::new(),
            predicate: String::new(),
            what,
        };
        for tok in head.split_whitespace() {
            if let Some((a, b)) = tok.split_once('=') {
                match a {
                    "property" => k.property = b.to_string(),
                    "view" => k.view = b.to_string(),
                    "clause" => k.clause = b.to_string(),
                    "predicate" => k.predicate = b.to_string(),
                    _ => {}
                }
            }
        }
        if !k.property.is_empty() && !k.view.is_empty() && !k.clause.is_empty() {
            v.push(k);
        }
    }
    v
}

pub struct Final {
    pub exit: i32,
}

#[allow(clippy::too_many_arguments)]
pub fn finish(
    m: &dyn Monitor,
    cfg: &Cfg,
    st: Stats,
    started: Instant,
    verif_dir: &str,
    dev_ran: bool,
) -> Final {
    let id = m.id();
    let known = load_known(&std::env::var("SFV_KNOWN").unwrap_or_else(|_| format!("{}/known_findings.txt", verif_dir)));
    let mut matched: BTreeSet<usize> = BTreeSet::new();
    let mut fresh: Vec<&Viol> = vec![];
    for v in &st.viols {
        let hit = known.iter().position(|k| {
            k.property == id && k.view == v.view && k.clause == v.clause && k.predicate == v.predicate
        });
        match hit {
            Some(i) => {
                matched.insert(i);
            }
            None => fresh.push(v),
        }
    }
    // required coverage
    let required = m.required_cells(cfg);
    let missing: Vec<String> = required
        .iter()
        .filter(|c| st.cells.get(*c).copied().unwrap_or(0) == 0)
        .cloned()
        .collect();

    // replay files for fresh violations: one per distinct signature
    let mut printed: BTreeSet<String> = BTreeSet::new();
    let mut lines: Vec<String> = vec![];
    let rdir = format!("{}/replays", verif_dir);
    let _ = std::fs::create_dir_all(&rdir);
    for v in &fresh {
        let sig = v.sig();
        if printed.contains(&sig) || printed.len() >= 12 {
            continue;
        }
        printed.insert(sig.clone());
        let fname = format!(
            "{}/{}-{}-{}-s{}-t{}.replay",
            rdir,
            id,
            sanitize(&v.view),
            sanitize(&v.clause),
            cfg.seed,
            v.trial
        );
        let body = format!(
            "property={}\nseed={}\ntier={}\nprofile={}\ntrial={}\nview={}\nclause={}\npredicate={}\n--- detail ---\n{}\n",
            id,
            cfg.seed,
            cfg.tier.name(),
            v.profile,
            v.trial,
            v.view,
            v.clause,
            v.predicate,
            v.detail
        );
        let _ = std::fs::write(&fname, body);
        lines.push(format!("VIOLATION property={} replay={}", id, fname));
        eprintln!("--- {} {} ---\n{}", id, sig, v.detail);
    }
    for i in &matched {
        let k = &known[*i];
        println!(
            "KNOWN-FINDING: property={} view={} clause={} predicate={} :: {}",
            id, k.view, k.clause, k.predicate, k.what
        );
    }
    for l in &lines {
        println!("{}", l);
    }

    let distinct = st.keys.len() as u64 + st.nontrivial_nokey;
    let fresh_count = fresh.len() as u64;
    let exit = if fresh_count > 0 {
        1
    } else if !missing.is_empty() || st.comparisons == 0 {
        2
    } else {
        0
    };
    let verdict = match exit {
        0 => "held on everything explored",
        1 => "violated",
        _ => "inconclusive",
    };

    let samples: Vec<J> = st.samples.iter().map(|s| J::s(s.clone())).collect();
    let cov = J::obj(vec![
        ("evaluations", J::Int(st.trials as i64)),
        ("distinct_nontrivial", J::Int(distinct as i64)),
        ("rule", J::s(m.rule())),
        ("samples", J::Arr(samples)),
        ("comparisons", J::Int(st.comparisons as i64)),
        ("cells", J::map_u64(&st.cells)),
        ("required_cells_missing", J::strs(&missing)),
        ("semantic_counters", J::map_u64(&st.counters)),
        (
            "maxima",
            J::Obj(st.maxima.iter().map(|(k, v)| (k.clone(), J::Num(*v))).collect()),
        ),
        ("inconclusive_trials", J::map_u64(&st.inconclusive)),
        ("dev_profile_pass_ran", J::Bool(dev_ran)),
        ("verdict", J::s(verdict)),
        (
            "known_findings_matched",
            J::Arr(
                matched
                    .iter()
                    .map(|i| J::s(format!("{} {} {}", known[*i].view, known[*i].clause, known[*i].predicate)))
                    .collect(),
            ),
        ),
        ("violations_total_incl_known", J::Int(st.viol_count as i64)),
        ("harness_escaped_panics", J::strs(&st.harness_panics.iter().take(5).cloned().collect::<Vec<_>>())),
        ("exhaustive", J::Bool(false)),
    ]);
    let ev = J::obj(vec![
        ("property_id", J::s(id)),
        ("tier", J::s(cfg.tier.name())),
        ("seed", J::Int(cfg.seed as i64)),
        ("level", J::s("exploration")),
        ("coverage", cov),
        ("assumptions", J::strs(&m.assumptions())),
        ("wall_s", J::Num((started.elapsed().as_millis() as f64) / 1000.0)),
        ("violations", J::Int(fresh_count as i64)),
    ]);
    let edir = format!("{}/evidence", verif_dir);
    let _ = std::fs::create_dir_all(&edir);
    let _ = std::fs::write(format!("{}/{}.json", edir, id), ev.render());

    println!(
        "{} {} seed={} : {} trials, {} comparisons, {} distinct non-trivial, {} cells, violations new={} known-signatures={} inconclusive-trials={} => {}",
        id,
        cfg.tier.name(),
        cfg.seed,
        st.trials,
        st.comparisons,
        distinct,
        st.cells.len(),
        fresh_count,
        matched.len(),
        st.inconclusive.values().sum::<u64>(),
        verdict
    );
    if exit == 2 {
        println!(
            "INCONCLUSIVE property={} missing-cells={:?} comparisons={}",
            id, missing, st.comparisons
        );
    }
    Final { exit }
}

fn sanitize(s: &str) -> String {
    s.chars()
        .map(|c| if c.is_ascii_alphanumeric() { c } else { '_' })
        .collect()
}
