#!/bin/bash
# sweep.sh <tier> <seed>...   run every check at the given seeds; print only what needs attention
tier=$1; shift
cd "$(dirname "$0")"
for s in "$@"; do
  for p in C01 C02 C03 C04 C05 C06 C07 C08 C09 C10 C11 C12 C13 C14 C15 C16 C17 C18; do
    start=$(date +%s)
    out=$(VERIF_SEED=$s ./run.sh $p $tier 2>&1); rc=$?
    end=$(date +%s)
    echo "seed=$s $p rc=$rc $((end-start))s $(echo "$out" | grep -E "^$p $tier" | sed 's/.*: //' | cut -c1-120)"
    if [ $rc -ne 0 ]; then echo "$out" | grep -E "^---|^VIOL|INCONC|BUILD" -A2 | cut -c1-600 | head -40; fi
  done
done
