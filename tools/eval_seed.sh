#!/bin/bash
# tools/eval_seed.sh <property-id> <dir-with-patch.diff-and-tests/demo_break.rs> [name] [checks...]
# Confirms a seeded change independently (scratch copy of /repo outside /repo and /verif):
#   patch applies, 43 repository tests pass with it, the demonstration fails with it and passes
#   without it; then runs the quick checks (all 18 unless a list is given) against the scratch copy
#   and stores everything as /verif/seeded/<name>/ (patch.diff, demo_break.rs, meta.json).
set -u
pid=$1; src=$2; name=${3:-$pid}; shift 3 2>/dev/null || shift $#
checks=("$@"); [ ${#checks[@]} -eq 0 ] && checks=(C01 C02 C03 C04 C05 C06 C07 C08 C09 C10 C11 C12 C13 C14 C15 C16 C17 C18)
VERIF=/verif
ROOT=/tmp/sfv-seed-$name
rm -rf "$ROOT"; mkdir -p "$ROOT"
trap 'rm -rf "$ROOT"' EXIT
export CARGO_NET_OFFLINE=true
rsync -a --exclude target --exclude .git /repo/ "$ROOT/repo/"
mkdir -p "$ROOT/repo/tests"; cp "$src/tests/demo_break.rs" "$ROOT/repo/tests/demo_break.rs"
cd "$ROOT/repo"
demo_without=$(CARGO_TARGET_DIR="$ROOT/tt" cargo test --offline --test demo_break 2>&1 | grep -E '^test result' | head -1)
if ! patch -p1 -s < "$src/patch.diff" >/dev/null 2>&1; then echo "patch does not apply"; exit 2; fi
demo_with=$(CARGO_TARGET_DIR="$ROOT/tt" cargo test --offline --test demo_break 2>&1 | grep -E '^test result' | head -1)
rm -f tests/demo_break.rs
suite=$(CARGO_TARGET_DIR="$ROOT/tt" cargo test --offline 2>&1 | grep -E '^test result' | head -1)
echo "suite with change : $suite"
echo "demo without      : $demo_without"
echo "demo with change  : $demo_with"
ok=1
echo "$suite" | grep -q "43 passed; 0 failed" || ok=0
echo "$demo_without" | grep -q "ok\." || ok=0
echo "$demo_with" | grep -q "FAILED" || ok=0
fired=(); silent=()
if [ $ok -eq 1 ]; then
  for p in "${checks[@]}"; do
    out=$(SFV_REPO="$ROOT/repo" SFV_TARGET="$ROOT/ht" SFV_OUT="$ROOT/out" "$VERIF/run.sh" $p quick 2>&1); rc=$?
    if [ $rc -eq 1 ] && echo "$out" | grep -q "^VIOLATION property=$p"; then fired+=($p); first=$(echo "$out" | grep -m1 -A1 "^--- $p" | tail -1 | cut -c1-300); echo "  $p FIRED: $first"; else silent+=("$p:rc=$rc"); fi
  done
fi
echo "confirmed=$ok fired: ${fired[*]:-} "
dst="$VERIF/seeded/$name"; mkdir -p "$dst"
cp "$src/patch.diff" "$dst/patch.diff"; cp "$src/tests/demo_break.rs" "$dst/demo_break.rs"; [ -f "$src/NOTES.md" ] && cp "$src/NOTES.md" "$dst/NOTES.md"
python3 - "$pid" "$name" "$ok" "$suite" "$demo_without" "$demo_with" "${fired[*]:-}" "${silent[*]:-}" <<'PY'
import json, sys, subprocess
pid, name, ok, suite, dwo, dw, fired, silent = sys.argv[1:9]
notes = ""
try: notes = open("/verif/seeded/%s/NOTES.md" % name).read()
except Exception: pass
def needs(notes):
    # the paragraph(s) of the sub-agent's NOTES.md that say what the change needs in order to show
    paras = [p.strip() for p in notes.split("\n\n") if p.strip()]
    hit = [p for p in paras if "manifest" in p.lower() or "needs" in p.lower() or "trigger" in p.lower()]
    text = " ".join(hit) if hit else " ".join(paras[:2])
    return " ".join(text.split())[:1500] or "see NOTES.md"
meta = {
  "property_broken": pid,
  "name": name,
  "repo_commit": subprocess.run(["git","-C","/repo","rev-parse","--short","HEAD"],capture_output=True,text=True).stdout.strip(),
  "confirmed": ok == "1",
  "what_it_needs_to_manifest": needs(notes),
  "what_was_run": {
    "repository_suite_with_change": suite,
    "demonstration_without_change": dwo,
    "demonstration_with_change": dw,
    "checks_run": "quick command of every listed check against a scratch copy of /repo with the patch applied (run.sh SFV_REPO=...)",
  },
  "checks_that_fired": fired.split(),
  "checks_silent": silent.split(),
}
json.dump(meta, open("/verif/seeded/%s/meta.json" % name, "w"), indent=1)
PY
