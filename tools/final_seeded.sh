#!/bin/bash
# tools/final_seeded.sh <part> <parts>: re-verify the seeded changes (every <parts>-th one starting at
# <part>) with the harness as it stands: the quick check of the property each one breaks, plus
# the checks recorded as having fired on it if the owning one is not among them.
# Results go to seeded/<id>/meta.json; tools/final_matrix.py writes seeded/MATRIX.md afterwards.
cd /verif
part=${1:-0}; parts=${2:-1}; i=0
for d in seeded/*/; do
  n=$(basename $d)
  [ -f $d/meta.json ] || continue
  i=$((i+1)); [ $((i % parts)) -eq $part ] || continue
  pid=$(python3 -c "import json;print(json.load(open('$d/meta.json'))['property_broken'])")
  cks=$(python3 -c "
import json
m=json.load(open('$d/meta.json'))
f=m['checks_that_fired']
s=[m['property_broken']]+([c for c in f if c!=m['property_broken']][:1] if m['property_broken'] not in f else [])
print(' '.join(s))")
  tmp=/tmp/final-seed-$part/$n; rm -rf $tmp; mkdir -p $tmp/tests
  cp $d/patch.diff $tmp/; cp $d/demo_break.rs $tmp/tests/; cp $d/NOTES.md $tmp/ 2>/dev/null
  python3 -c "import json;m=json.load(open('$d/meta.json'));json.dump({k:m[k] for k in ('summary','ported','owning_check_before_strengthening','note') if k in m},open('$tmp/keep.json','w'))"
  tools/eval_seed.sh $pid $tmp $n $cks > /tmp/final-seed-$part/$n.log 2>&1
  python3 -c "
import json
m=json.load(open('$d/meta.json')); k=json.load(open('$tmp/keep.json')); m.update(k); json.dump(m,open('$d/meta.json','w'),indent=1)"
  echo "$n: $(grep confirmed /tmp/final-seed-$part/$n.log)"
  rm -rf $tmp
done
rm -rf /tmp/final-seed-$part
echo SEEDED-PART-$part-DONE
