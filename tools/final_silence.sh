#!/bin/bash
# tools/final_silence.sh: quick sweep at seeds 1..9 on the unchanged tree -> selftest/SILENCE.md
cd /verif
{
echo "# Silence on the unchanged tree"
echo
echo "\`./sweep.sh quick 1 2 3 4 5 6 7 8 9\` on /repo $(git -C /repo rev-parse --short HEAD), harness $(git rev-parse --short HEAD): one line per check and seed (rc=0: held, only KNOWN-FINDING lines allowed)."
echo
echo '```'
./sweep.sh quick 1 2 3 4 5 6 7 8 9 2>&1 | grep -v WARNING
echo '```'
} > selftest/SILENCE.md
echo SILENCE-DONE
