#!/bin/bash
# tools/thor_seed.sh <seed>: tools/thor_all.sh at another VERIF_SEED
export VERIF_SEED=${1:-2}
exec "$(dirname "$0")/thor_all.sh"
