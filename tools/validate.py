#!/usr/bin/env python3
# validate MANIFEST.json and evidence/*.json against the schemas (needs jsonschema: python3-vt)
import json, sys, glob
import jsonschema
ok = True
m = json.load(open('/verif/MANIFEST.json'))
jsonschema.validate(m, json.load(open('/root/.vp/MANIFEST.schema.json')))
print("MANIFEST ok:", len(m['checks']), "checks")
es = json.load(open('/root/.vp/EVIDENCE.schema.json'))
for f in sorted(glob.glob('/verif/evidence/*.json')):
    try:
        jsonschema.validate(json.load(open(f)), es)
        print("ok", f)
    except Exception as e:
        ok = False
        print("INVALID", f, str(e)[:300])
sys.exit(0 if ok else 1)
