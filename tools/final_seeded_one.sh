#!/bin/bash
# tools/final_seeded_one.sh <seeded id>...: the body of tools/final_seeded.sh for the named changes
# (used to repeat single re-verifications, e.g. one whose demonstration timed out on a loaded machine)
cd /verif
for n in "$@"; do
  d=seeded/$n/
  [ -f $d/meta.json ] || { echo "$n: no such seeded change"; continue; }
  pid=$(python3 -c "import json;print(json.load(open('$d/meta.json'))['property_broken'])")
  cks=$(python3 -c "
import json
m=json.load(open('$d/meta.json'))
f=m['checks_that_fired']
s=[m['property_broken']]+([c for c in f if c!=m['property_broken']][:1] if m['property_broken'] not in f else [])
print(' '.join(s))")
  [ -n "${CHECKS:-}" ] && cks="$CHECKS"
  tmp=/tmp/final-seed-one$SUF/$n; rm -rf $tmp; mkdir -p $tmp/tests
  cp $d/patch.diff $tmp/; cp $d/demo_break.rs $tmp/tests/; cp $d/NOTES.md $tmp/ 2>/dev/null
  python3 -c "import json;m=json.load(open('$d/meta.json'));json.dump({k:m[k] for k in ('summary','ported','owning_check_before_strengthening','note') if k in m},open('$tmp/keep.json','w'))"
  tools/eval_seed.sh $pid $tmp $n $cks > /tmp/final-seed-one$SUF/$n.log 2>&1
  python3 -c "
import json
m=json.load(open('$d/meta.json')); k=json.load(open('$tmp/keep.json')); m.update(k); json.dump(m,open('$d/meta.json','w'),indent=1)"
  echo "$n: $(grep confirmed /tmp/final-seed-one$SUF/$n.log)"
  cat /tmp/final-seed-one$SUF/$n.log | cut -c1-300
  rm -rf $tmp
done
rm -rf /tmp/final-seed-one$SUF
