#!/bin/bash
# tools/thor_some.sh <Cnn>...: the named thorough checks under /usr/bin/time (as tools/thor_all.sh)
cd "$(dirname "$0")/.."
for p in "$@"; do
  /usr/bin/time -v ./run.sh $p thorough > /tmp/thor_$p.out 2>&1; rc=$?
  echo "$p rc=$rc $(grep -E "^$p thorough" /tmp/thor_$p.out | cut -c1-200) | $(grep -E 'Elapsed|Maximum resident' /tmp/thor_$p.out | tr '\n' ' ' | sed 's/(h:mm:ss or m:ss)//')"
  grep -E "^VIOLATION|^--- " -A1 /tmp/thor_$p.out | head -6
done
