#!/bin/bash
# tools/fixcommit.sh <message-file>: run the repository's own tests on the working tree, discard
# the plot images the tests rewrite, and commit only src/ changes with the given message.
set -e
cd /repo
out=$(cargo test --offline 2>&1 | grep -E '^test result' | head -1)
echo "$out"
echo "$out" | grep -q "43 passed; 0 failed" || { echo "TESTS FAILED"; exit 1; }
git checkout -- img
git add src
git commit -q -F "$1"
git log --oneline | head -1
