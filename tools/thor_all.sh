#!/bin/bash
# every thorough check under /usr/bin/time: verdict line, wall time, peak RSS
cd "$(dirname "$0")/.."
for p in C01 C02 C03 C04 C05 C06 C07 C08 C09 C10 C11 C12 C13 C14 C15 C16 C17 C18; do
  /usr/bin/time -v ./run.sh $p thorough > /tmp/thor_$p.out 2>&1; rc=$?
  echo "$p rc=$rc $(grep -E "^$p thorough" /tmp/thor_$p.out | cut -c1-200) | $(grep -E 'Elapsed|Maximum resident' /tmp/thor_$p.out | tr '\n' ' ' | sed 's/(h:mm:ss or m:ss)//')"
  grep -E "^VIOLATION|^--- " -A1 /tmp/thor_$p.out | head -6
done
