#!/usr/bin/env python3
"""Generates selftest/benign/<name>.diff: property-PRESERVING refactorings of /repo (other
algorithms, other operation orders, other rounding). Every check must stay silent on them:
the other half of "never raise an alarm on code where the property holds"."""
import os, subprocess, tempfile
SW = "src/sliding_windows/"
B = [
 # (ema_incremental_form, written as property-preserving, is a mutant now - see make_mutants.py:
 #  val - last overflows for opposite values next to the largest finite float, C04 / C09)
 ("sma_resum_window", SW+"sma.rs", "        self.sum = self.sum + val;", "        self.sum = self.q_vals.iter().fold(T::zero(), |a, b| a + *b);"),
 ("alma_weights_by_window_position", SW+"alma.rs", "        let ala = self.wtd_sum / self.cum_wt;",
  "        // proper ALMA: the kernel weight belongs to the position in the window, not to the sample\n        let two = T::from(2.0).expect(\"can convert\");\n        let mut num = T::zero();\n        let mut den = T::zero();\n        for (k, v) in self.q_vals.iter().enumerate() {\n            let kk = T::from(k).expect(\"can convert\");\n            let w = (-(kk - self.m).powi(2) / (two * self.s * self.s)).exp();\n            num = num + w * *v;\n            den = den + w;\n        }\n        let ala = num / den;"),
 ("welford_two_pass", SW+"welford_online.rs", "        self.update_stats_add(val);\n    }", "        self.update_stats_add(val);\n        // two-pass recomputation over the window\n        let n = T::from(self.q_vals.len()).unwrap();\n        let mean = self.q_vals.iter().fold(T::zero(), |a, b| a + *b) / n;\n        self.m2 = self.q_vals.iter().fold(T::zero(), |a, b| a + (*b - mean) * (*b - mean));\n        self.mean = mean;\n        self.count = self.q_vals.len();\n    }"),
 ("cti_centred_on_window_mean", SW+"correlation_trend_indicator.rs", "let base = self.q_vals.front().copied().unwrap_or_else(T::zero);", "let base = if self.q_vals.is_empty() { T::zero() } else { self.q_vals.iter().fold(T::zero(), |a, b| a + *b) / T::from(self.q_vals.len()).unwrap() };"),
 ("min_rescans_every_update", SW+"min.rs", "        self.q_vals.push_back(val);\n        if let Some(min) = self.opt_min.as_mut() {", "        self.q_vals.push_back(val);\n        self.opt_min = self.q_vals.iter().copied().min_by(|a, b| a.partial_cmp(b).expect(\"Can compare elements\"));\n        if let Some(min) = self.opt_min.as_mut() {"),
 ("cumulative_resums_window", SW+"cumulative.rs", "        *out = *out + val;", "        *out = self.q_vals.iter().fold(T::zero(), |a, b| a + *b);"),
 ("rsi_direct_ratio", SW+"rsi.rs", "            let rs = self.avg_gain / self.avg_loss;\n            let rsi = hundred - hundred / (T::one() + rs);", "            let rsi = hundred * self.avg_gain / (self.avg_gain + self.avg_loss);"),
 ("net_signum_with_zero_check", SW+"noise_elimination_technology.rs", "                if diff > T::zero() {\n                    num = num + T::one();\n                } else if diff < T::zero() {\n                    num = num - T::one();\n                }", "                if diff != T::zero() {\n                    num = num + diff.signum();\n                }"),
 ("hl_rescans_every_update", SW+"hl_normalizer.rs", "        if rescan {", "        if rescan || !self.q_vals.is_empty() {"),
 ("cog_weights_from_newest", SW+"center_of_gravity.rs", "        for (i, val) in self.q_vals.iter().enumerate() {\n            let weight = q_len - i;", "        for (i, val) in self.q_vals.iter().rev().enumerate() {\n            let weight = i + 1;"),
 ("myrsi_ratio_from_difference", SW+"my_rsi.rs", "self.out = (self.cu - self.cd) / (self.cu + self.cd);", "self.out = T::one() - (self.cd + self.cd) / (self.cu + self.cd);"),
]
def main():
    out = os.path.join(os.path.dirname(os.path.abspath(__file__)), "benign")
    os.makedirs(out, exist_ok=True)
    for f in os.listdir(out): os.remove(os.path.join(out, f))
    n = 0
    for name, path, old, new in B:
        src = open(os.path.join("/repo", path)).read()
        if old not in src:
            print("SKIP (anchor missing)", name); continue
        dst = src.replace(old, new, 1)
        with tempfile.TemporaryDirectory() as td:
            a = os.path.join(td, "a", path); b = os.path.join(td, "b", path)
            os.makedirs(os.path.dirname(a)); os.makedirs(os.path.dirname(b))
            open(a, "w").write(src); open(b, "w").write(dst)
            r = subprocess.run(["diff", "-u", os.path.join("a", path), os.path.join("b", path)], cwd=td, capture_output=True, text=True)
        open(os.path.join(out, name + ".diff"), "w").write("# benign: every check must stay silent\n" + r.stdout)
        n += 1
    print("wrote", n, "benign refactorings")
main()
