#!/usr/bin/env python3
"""selftest/mutsweep.py [--seed S] [--count K] [--out FILE]

Systematic first-order mutation sweep (complements the hand-written mutants and the seeded changes):
sample K single-token mutations of the library source of /repo (outside #[cfg(test)] modules),
apply each to a scratch copy outside /repo and /verif, keep those that still compile and pass the
43 repository tests, and run the quick checks against the copy, cheapest first, until one fires.
A mutant that no check kills is listed as a survivor with its diff, to be classified by hand
(equivalent mutant / outside every property / gap in a monitor).

Nothing is written to /repo; the scratch directory is removed at the end.
"""
import argparse, os, random, re, shutil, subprocess, sys, time, json

VERIF = os.path.dirname(os.path.dirname(os.path.abspath(__file__)))
ROOT = "/tmp/sfv-mutsweep"
ORDER = ["C14", "C15", "C09", "C07", "C18", "C13", "C04", "C10", "C12", "C05", "C06", "C11", "C03", "C16", "C17", "C08", "C01", "C02"]

# (regex, replacement) single-token operators; applied to one occurrence at a time
OPS = [
    (r" >= ", " > "), (r" > ", " >= "), (r" <= ", " < "), (r" < ", " <= "),
    (r" == ", " != "), (r" != ", " == "),
    (r" \+ ", " - "), (r" - ", " + "), (r" \* ", " / "), (r" / ", " * "),
    (r" && ", " || "), (r" \|\| ", " && "),
    (r" \+ 1\b", " + 2"), (r" - 1\b", " - 2"), (r" - 1\b", ""), (r" \+ 1\b", ""),
    (r"T::zero\(\)", "T::one()"), (r"T::one\(\)", "T::zero()"),
    (r"\.min\(", ".max("), (r"\.max\(", ".min("),
    (r"pop_front\(\)", "pop_back()"), (r"push_back\(", "push_front("),
    (r"\.front\(\)", ".back()"), (r"\.back\(\)", ".front()"),
    (r"\b0\.5\b", "0.25"), (r"\b2\.0\b", "3.0"), (r"\b100\.0\b", "10.0"), (r"\b0\.99\b", "0.9"), (r"\b0\.04\b", "0.4"),
    (r"\.abs\(\)", ""), (r"\.sqrt\(\)", ""), (r"-T::one\(\)", "T::one()"),
    (r"\breturn;\n", "\n"), (r"\.is_some\(\)", ".is_none()"), (r"\.is_empty\(\)", ".len() == 1"),
    (r"\bwindow_len - 1\b", "window_len"), (r"\bwindow_len \+ 1\b", "window_len"), (r"\.len\(\) >= ", ".len() > "),
]


def sh(cmd, cwd=None, env=None, timeout=3600):
    e = dict(os.environ)
    e["CARGO_NET_OFFLINE"] = "true"
    if env:
        e.update(env)
    try:
        p = subprocess.run(cmd, shell=True, cwd=cwd, env=e, capture_output=True, text=True, timeout=timeout)
        return p.returncode, p.stdout + p.stderr
    except subprocess.TimeoutExpired:
        return 124, "TIMEOUT"


def library_files():
    out = []
    for d, _, fs in os.walk("/repo/src"):
        for f in fs:
            if f.endswith(".rs") and f not in ("lib.rs", "mod.rs"):
                out.append(os.path.join(d, f))
    return sorted(out)


def candidates():
    c = []
    for path in library_files():
        src = open(path).read()
        cut = src.find("#[cfg(test)]")
        body = src if cut < 0 else src[:cut]
        for oi, (pat, rep) in enumerate(OPS):
            for m in re.finditer(pat, body):
                line = body.count("\n", 0, m.start()) + 1
                text = body.split("\n")[line - 1]
                if text.strip().startswith("//") or "debug_assert" in text or "expect(" in text and "T::from" not in text:
                    continue
                c.append((path, oi, m.start(), m.end(), line))
    return c


def main():
    ap = argparse.ArgumentParser()
    ap.add_argument("--seed", type=int, default=1)
    ap.add_argument("--count", type=int, default=60)
    ap.add_argument("--out", default=os.path.join(VERIF, "selftest", "MUTSWEEP.md"))
    a = ap.parse_args()
    rnd = random.Random(a.seed)
    cands = candidates()
    rnd.shuffle(cands)
    shutil.rmtree(ROOT, ignore_errors=True)
    os.makedirs(ROOT)
    rows, survivors = [], []
    n_valid = n_invalid = 0
    t0 = time.time()
    try:
        for (path, oi, s, e, line) in cands:
            if n_valid >= a.count:
                break
            scratch = os.path.join(ROOT, "repo")
            shutil.rmtree(scratch, ignore_errors=True)
            sh("rsync -a --exclude target --exclude .git /repo/ %s/" % scratch)
            rel = os.path.relpath(path, "/repo")
            src = open(path).read()
            pat, rep = OPS[oi]
            mutated = src[:s] + re.sub(pat, rep, src[s:e], count=1) + src[e:]
            open(os.path.join(scratch, rel), "w").write(mutated)
            old = src.split("\n")[line - 1].strip()
            new = mutated.split("\n")[line - 1].strip()
            name = "%s:%d" % (rel.replace("src/", ""), line)
            rc, out = sh("cargo test --offline 2>&1 | grep -E '^test result' | head -1", cwd=scratch, env={"CARGO_TARGET_DIR": ROOT + "/tt"})
            if "43 passed; 0 failed" not in out:
                n_invalid += 1
                continue
            n_valid += 1
            killed = None
            for p in ORDER:
                rc, out = sh("%s/run.sh %s quick" % (VERIF, p), env={"SFV_REPO": scratch, "SFV_TARGET": ROOT + "/ht", "SFV_OUT": ROOT + "/out"})
                if rc == 1 and ("VIOLATION property=%s" % p) in out:
                    killed = p
                    break
                if rc == 3:
                    killed = "BUILD-FAILED(harness)"
                    break
            rows.append("| %s | `%s` -> `%s` | %s |" % (name, old.replace("|", "\\|")[:90], new.replace("|", "\\|")[:90], killed or "**survived**"))
            if not killed:
                survivors.append((name, old, new))
            print("%4ds %s  %s -> %s : %s" % (time.time() - t0, name, old[:60], new[:60], killed or "SURVIVED"), flush=True)
    finally:
        shutil.rmtree(ROOT, ignore_errors=True)
    head = subprocess.run("git -C /repo rev-parse --short HEAD", shell=True, capture_output=True, text=True).stdout.strip()
    with open(a.out, "w") as f:
        f.write("# First-order mutation sweep\n\nGenerated by selftest/mutsweep.py --seed %d --count %d on /repo commit %s. %d sampled mutants did not compile or were caught by the 43 repository tests (not listed); %d passed them and were run against the quick checks, cheapest first, until one fired (the column names that check).\n\n" % (a.seed, a.count, head, n_invalid, n_valid))
        f.write("| where | mutation | first check that fired |\n|---|---|---|\n" + "\n".join(rows) + "\n\n")
        f.write("Survivors: %d of %d.\n" % (len(survivors), n_valid))
    print("valid %d invalid %d survivors %d" % (n_valid, n_invalid, len(survivors)))


if __name__ == "__main__":
    main()
