#!/usr/bin/env python3
"""Generates selftest/mutants/<name>.diff from the table below (string replacements on /repo's
current tree).  Each mutant is a small source change that is meant to break the listed properties
while still compiling and passing the repository's 43 tests."""
import os, subprocess, tempfile, shutil, sys

SW = "src/sliding_windows/"
PF = "src/pure_functions/"
RO = "src/rolling/"
M = [
 # name, properties expected to fire, file, old, new
 ("sma_window_plus_one", ["C02", "C03", "C04"], SW+"sma.rs", "if self.q_vals.len() >= self.window_len {", "if self.q_vals.len() > self.window_len {"),
 ("sma_peeks_raw_value", ["C01"], SW+"sma.rs", "        self.q_vals.push_back(val);\n\n        self.sum = self.sum + val;", "        self.q_vals.push_back(val);\n\n        self.sum = self.sum + val;\n        let _ = raw;"),
 ("ema_reseed_on_zero", ["C04", "C10"], SW+"ema.rs", "if self.n_observed_values == 1 {", "if self.last_ema == T::zero() {"),
 ("ema_weight_n_plus_2", ["C04", "C09"], SW+"ema.rs", "let weight = self.alpha / (T::one() + T::from(self.window_len).expect(\"can convert\"));", "let weight = self.alpha / (T::one() + T::one() + T::from(self.window_len).expect(\"can convert\"));"),
 ("cumulative_double_first", ["C02", "C03"], SW+"cumulative.rs", "self.out = Some(T::zero());", "self.out = Some(val);"),
 ("min_rescan_skips_newest", ["C02", "C03"], SW+"min.rs", "                    .iter()\n                    .copied()\n                    .min_by", "                    .iter()\n                    .rev()\n                    .skip(1)\n                    .copied()\n                    .min_by"),
 ("max_rescan_skips_oldest", ["C02", "C03", "C12"], SW+"max.rs", "                    .iter()\n                    .copied()\n                    .max_by", "                    .iter()\n                    .skip(1)\n                    .copied()\n                    .max_by"),
 ("welford_remove_divisor", ["C02", "C03"], SW+"welford_online.rs", "self.mean = self.mean - (delta / T::from(self.count - 1).unwrap());", "self.mean = self.mean - (delta / T::from(self.count).unwrap());"),
 ("welford_population_variance", ["C02"], SW+"welford_online.rs", "self.m2 / T::from(self.count - 1).expect(\"can convert\")", "self.m2 / T::from(self.count).expect(\"can convert\")"),
 ("welford_drop_nonneg_guard", ["C07", "C08"], SW+"welford_online.rs", "        if var <= T::zero() {\n            return Some(T::zero());\n        }", ""),
 ("hl_rescan_without_new_value_EQUIVALENT", [], SW+"hl_normalizer.rs", "        self.q_vals.push_back(view_last);\n        if rescan {", "        if rescan {\n            let (min, max) = extent_queue(&self.q_vals);\n            self.min = min;\n            self.max = max;\n        }\n        self.q_vals.push_back(view_last);\n        if false {"),
 ("roc_base_off_by_one", ["C02", "C03"], SW+"roc.rs", "if self.q_vals.len() >= self.window_len {\n            let old = self.q_vals.front().unwrap();", "if self.q_vals.len() > self.window_len {\n            let old = self.q_vals.front().unwrap();"),
 ("roc_no_hold_on_zero_base", ["C02", "C08", "C15"], SW+"roc.rs", "        if oldest == T::zero() {\n            return;\n        }\n", ""),
 ("entropy_strictly_positive", ["C02"], SW+"binary_entropy.rs", "        if val >= T::zero() {\n            self.p += 1;\n        }", "        if val > T::zero() {\n            self.p += 1;\n        }"),
 ("vst_flat_returns_zero", ["C02"], SW+"variance_stabilizing_transformation.rs", "return Some(self.last);", "return Some(T::zero());"),
 ("vsct_uses_last_not_centered", ["C02", "C12"], SW+"vsct.rs", "let out = (self.last - mean) / std_dev;", "let out = (self.last - mean * T::from(0.999).unwrap()) / std_dev;"),
 ("rsi_window_n_minus_1_changes", ["C05"], SW+"rsi.rs", "        let mut prev = self.old_ref;\n        for v in self.q_vals.iter() {\n            let change = *v - prev;", "        let mut prev = *self.q_vals.front().unwrap();\n        for v in self.q_vals.iter() {\n            let change = *v - prev;"),
 ("rsi_zero_loss_gives_zero", ["C05", "C16"], SW+"rsi.rs", "self.out = Some(hundred);", "self.out = Some(T::zero());"),
 ("myrsi_no_hold", ["C05", "C08", "C16"], SW+"my_rsi.rs", "        if self.cu + self.cd != T::zero() {\n            self.out = (self.cu - self.cd) / (self.cu + self.cd);\n        }", "        self.out = (self.cu - self.cd) / (self.cu + self.cd);"),
 ("myrsi_ties_count_up", ["C05", "C12"], SW+"my_rsi.rs", "            if *v > prev {\n                self.cu = self.cu + (*v - prev);", "            if *v >= prev {\n                self.cu = self.cu + (*v - prev) + T::from(0.0).unwrap();\n                if *v == prev { self.cu = self.cu + T::from(1e-9).unwrap(); }"),
 ("cog_weights_reversed", ["C06"], SW+"center_of_gravity.rs", "let weight = q_len - i;", "let weight = i + 1;"),
 ("cti_uses_window_len_on_partial_EQUIVALENT", [], SW+"correlation_trend_indicator.rs", "let window_len = T::from(self.q_vals.len()).expect(\"Can convert\");", "let window_len = T::from(self.window_len).expect(\"Can convert\");"),
 ("cti_not_centred", ["C12", "C16"], SW+"correlation_trend_indicator.rs", "let v = *v - base;", "let v = *v - base * T::zero();"),
 ("net_ties_count_plus", ["C06", "C12"], SW+"noise_elimination_technology.rs", "                if diff > T::zero() {", "                if diff >= T::zero() {"),
 ("net_skips_adjacent_pairs", ["C06"], SW+"noise_elimination_technology.rs", "            for older in 0..newer {", "            for older in 0..newer.saturating_sub(1) {"),
 ("ema_incremental_form", ["C04", "C09"], SW+"ema.rs", "self.out = val * weight + self.last_ema * (T::one() - weight);", "self.out = self.last_ema + weight * (val - self.last_ema);"),
 ("alma_offset_constant", ["C04"], SW+"alma.rs", "let m = offset * (wl + T::one());", "let m = offset * wl;"),
 ("alma_never_evicts_weight", ["C04", "C03", "C10"], SW+"alma.rs", "            self.cum_wt = self.cum_wt - *old_wtd;\n", ""),
 ("supersmoother_c1_sign", ["C11", "C10"], SW+"super_smoother.rs", "c1: T::one() - c2 - c3,", "c1: T::one() - c2 + c3,"),
 ("supersmoother_warmup_plus_one", ["C08", "C11"], SW+"super_smoother.rs", "if self.i < self.window_len {", "if self.i <= self.window_len {"),
 ("roofing_alpha_cos_only", ["C11"], SW+"roofing_filter.rs", "let alpha_1 = ((f / wl).cos() + (f / wl).sin() - T::one()) / (f / wl).cos();", "let alpha_1 = ((f / wl).cos() + (f / wl).sin() - T::one()) / (f / wl).sin();"),
 ("roofing_feeds_smoother_early", ["C08", "C11"], SW+"roofing_filter.rs", "if self.i > self.window_len {", "if self.i >= self.window_len {"),
 ("laguerre_filter_l2_lag", ["C11"], SW+"laguerre_filter.rs", "            -self.gamma * self.l1s[self.l1s.len() - 1]\n                + self.l1s[self.l1s.len() - 2]\n                + self.gamma * self.l2s[self.l2s.len() - 1],", "            -self.gamma * self.l1s[self.l1s.len() - 1]\n                + self.l1s[self.l1s.len() - 1]\n                + self.gamma * self.l2s[self.l2s.len() - 1],"),
 ("laguerre_filter_leak_again", ["C18"], SW+"laguerre_filter.rs", "        self.filts.remove(0);\n", ""),
 ("laguerre_rsi_gamma_n", ["C11"], SW+"laguerre_rsi.rs", "/ (T::from(window_len).expect(\"can convert\") + T::one()),\n            l0s:", "/ (T::from(window_len).expect(\"can convert\") + T::one() + T::one()),\n            l0s:"),
 ("cyber_cycle_feedback_sign", ["C09", "C11"], SW+"cyber_cycle.rs", "            - (T::one() - self.alpha).powi(2) * *self.out.get(last - 2).unwrap();", "            + (T::one() - self.alpha).powi(2) * *self.out.get(last - 2).unwrap();"),
 ("cyber_cycle_smooth_newest", ["C11"], SW+"cyber_cycle.rs", "*v = (*self.vals.get(i).unwrap()", "*v = (val"),
 ("trendflex_leak_04", ["C11"], SW+"trend_flex.rs", "let ms0 = T::from(0.04).expect(\"can convert\") * d_sum.powi(2)", "let ms0 = T::from(0.4).expect(\"can convert\") * d_sum.powi(2)"),
 ("reflex_no_exp", ["C09", "C11"], SW+"re_flex.rs", "let a1 = (T::from(-8.88442402435).expect(\"can convert\") / window_len).exp();", "let a1 = T::from(8.88442402435).expect(\"can convert\") / window_len;"),
 ("reflex_slope_dropped", ["C11"], SW+"re_flex.rs", "let slope = (*self.q_vals.front().unwrap() - filt) / window_len;", "let slope = (*self.q_vals.front().unwrap() - filt) / window_len * T::zero();"),
 ("eft_no_clamp", ["C07", "C08", "C11"], SW+"ehlers_fisher_transform.rs", "        smoothed = smoothed.clamp(\n            T::from(-0.99).expect(\"can convert\"),\n            T::from(0.99).expect(\"can convert\"),\n        );", "        smoothed = smoothed.clamp(\n            T::from(-1.0).expect(\"can convert\"),\n            T::from(1.0).expect(\"can convert\"),\n        );"),
 ("eft_leak_again", ["C18"], SW+"ehlers_fisher_transform.rs", "        if self.q_out.len() > 1 {\n            self.q_out.pop_front();\n        }\n", ""),
 ("eft_low_never_rescanned", ["C11"], SW+"ehlers_fisher_transform.rs", "if old_val <= self.low {", "if old_val < self.low {"),
 ("pfe_all_steps", ["C11"], SW+"polarized_fractal_efficiency.rs", "for i in 0..self.window_len - 2 {", "for i in 0..self.window_len - 1 {"),
 ("pfe_ma_fed_twice_on_up", ["C01", "C11"], SW+"polarized_fractal_efficiency.rs", "            self.moving_average.update(p);\n", "            self.moving_average.update(p);\n            if p > T::from(0.9).unwrap() {\n                self.moving_average.update(p);\n            }\n"),
 ("add_drops_update_of_b_when_a_none", ["C01"], PF+"add.rs", "        self.a.update(val);\n        self.b.update(val);", "        self.a.update(val);\n        if self.a.last().is_some() {\n            self.b.update(val);\n        }"),
 ("subtract_swapped", ["C14", "C01"], PF+"subtract.rs", "Some(a - b)", "Some(b - a)"),
 ("divide_swapped", ["C14", "C01"], PF+"divide.rs", "Some(a / b)", "Some(b / a)"),
 ("multiply_remembers_sign", ["C14"], PF+"multiply.rs", "Some(a * b)", "Some(a * b.abs() * if b < T::zero() { -T::one() } else { T::one() })"),
 ("gte_strict", ["C14"], PF+"gte.rs", "if val >= self.clipping_point {", "if val > self.clipping_point + T::from(0.125).unwrap() {"),
 ("lte_holds_previous_when_above", ["C14", "C07"], PF+"lte.rs", "        } else {\n            self.out = Some(self.clipping_value);\n        }", "        } else if self.out.is_none() {\n            self.out = Some(self.clipping_value);\n        }"),
 ("tanh_of_raw_after_ready", ["C01", "C14"], PF+"tanh.rs", "        self.view.update(val);\n    }", "        self.view.update(val);\n        self.raw = val;\n    }"),
 ("echo_relapse_on_zero", ["C08", "C14", "C01"], PF+"echo.rs", "self.out = Some(val);", "self.out = if val == T::zero() { None } else { Some(val) };"),
 ("drawdown_from_first_value_EQUIVALENT", [], RO+"drawdown.rs", "let dd = (self.peak - self.min_after_peak) / self.peak;", "let dd = (self.peak - val) / self.peak;\n        let _ = self.min_after_peak;"),
 ("drawdown_resets_on_new_peak", ["C13", "C07"], RO+"drawdown.rs", "            self.peak = val;\n            self.min_after_peak = val;", "            self.peak = val;\n            self.min_after_peak = val;\n            self.max_drawdown = T::zero();"),
 ("ln_return_level_dependent", ["C13", "C12"], RO+"ln_return.rs", "let out = (self.current_val / self.last_val).ln();", "let out = (self.current_val / self.last_val).ln() * (T::one() + self.last_val * T::from(1e-13).unwrap());"),
 ("welford_rolling_s_uses_old_mean_twice", ["C13"], RO+"welford_rolling.rs", "self.s = self.s + (val - old_mean) * (val - self.mean);", "self.s = self.s + (val - old_mean) * (val - old_mean) * T::from(0.999999).unwrap();"),
 ("welford_rolling_mean_drift", ["C13"], RO+"welford_rolling.rs", "self.mean = self.mean + (val - old_mean) / T::from(self.n).expect(\"Can convert\");", "self.mean = self.mean + (val - old_mean) / T::from(self.n.min(100_000)).expect(\"Can convert\");"),
]

def main():
    out = os.path.join(os.path.dirname(os.path.abspath(__file__)), "mutants")
    os.makedirs(out, exist_ok=True)
    for f in os.listdir(out):
        os.remove(os.path.join(out, f))
    ok = 0
    for name, props, path, old, new in M:
        src = open(os.path.join("/repo", path)).read()
        if name == "sma_peeks_raw_value":
            # the wrapper keeps the raw value and mixes a trace of it into the sum
            old2 = "        self.view.update(val);\n        let Some(val) = self.view.last() else { return };\n        debug_assert!(val.is_finite(), \"value must be finite\");\n\n        if self.q_vals.len() >= self.window_len {"
            new2 = "        let raw = val;\n        self.view.update(val);\n        let Some(val) = self.view.last() else { return };\n        debug_assert!(val.is_finite(), \"value must be finite\");\n        let val = if raw > val + T::from(1000.0).unwrap() { raw } else { val };\n\n        if self.q_vals.len() >= self.window_len {"
            if old2 not in src:
                print("SKIP (anchor missing)", name); continue
            dst = src.replace(old2, new2, 1)
        elif name == "tanh_of_raw_after_ready":
            dst = src.replace("    view: V,\n    _marker: std::marker::PhantomData<T>,\n}", "    view: V,\n    raw: T,\n    _marker: std::marker::PhantomData<T>,\n}", 1)
            dst = dst.replace("            view,\n            _marker: std::marker::PhantomData,", "            view,\n            raw: T::zero(),\n            _marker: std::marker::PhantomData,", 1)
            dst = dst.replace(old, new, 1)
            dst = dst.replace("            v.tanh()", "            if self.raw > T::from(100.0).unwrap() { self.raw.tanh() } else { v.tanh() }", 1)
        else:
            if old not in src:
                print("SKIP (anchor missing)", name); continue
            dst = src.replace(old, new, 1)
        with tempfile.TemporaryDirectory() as td:
            a = os.path.join(td, "a", path); b = os.path.join(td, "b", path)
            os.makedirs(os.path.dirname(a)); os.makedirs(os.path.dirname(b))
            open(a, "w").write(src); open(b, "w").write(dst)
            r = subprocess.run(["diff", "-u", os.path.join("a", path), os.path.join("b", path)], cwd=td, capture_output=True, text=True)
        with open(os.path.join(out, name + ".diff"), "w") as f:
            f.write("# expect: " + " ".join(props) + "\n")
            f.write(r.stdout)
        ok += 1
    # the reverse of every "fix:" commit is a mutant too: the monitors that justified the fix must fire
    for sha, props in REVERTS:
        r = subprocess.run(["git", "-C", "/repo", "show", "-R", "--format=", sha, "--", "src"], capture_output=True, text=True)
        if r.returncode != 0 or not r.stdout.strip():
            print("SKIP revert", sha); continue
        subj = subprocess.run(["git", "-C", "/repo", "log", "-1", "--format=%s", sha], capture_output=True, text=True).stdout.strip()
        with open(os.path.join(out, "revert_" + sha + ".diff"), "w") as f:
            f.write("# expect: " + " ".join(props) + "\n# reverse of: " + subj + "\n")
            f.write(r.stdout)
        ok += 1
    print("wrote", ok, "mutants")

REVERTS = [
 ("57a3726", ["C18"]), ("82ed14d", ["C18"]), ("b5c376c", ["C15"]), ("c78e68d", ["C15"]), ("f393148", ["C15"]),
 ("5af7571", ["C09", "C11", "C08"]), ("c87903f", ["C08", "C16"]), ("5c3209c", ["C02", "C03", "C04"]), ("b36a269", ["C02", "C03"]),
 ("8d84c6d", ["C02", "C03"]), ("3838687", ["C02", "C03"]), ("fbe9243", ["C04", "C10"]), ("8929b8c", ["C06", "C12"]), ("aa6c6eb", ["C11"]),
 ("d465690", ["C11"]), ("f767220", ["C10", "C11", "C15"]), ("e0c2cb8", ["C07", "C16"]), ("7c88e22", ["C12", "C16"]), ("617124b", ["C07"]),
]
main()
