#!/bin/bash
# run.sh <Cnn> <quick|thorough>   |   run.sh replay <file>   |   run.sh build
# Rebuilds the harness (and with it the crate, from /repo's current working tree) in the dev and
# the release profile, offline, then runs the monitor.  Exit: 0 held, 1 VIOLATION, 2 inconclusive,
# 3 harness could not be built against the tree (inconclusive, no VIOLATION line).
set -u
HERE="$(cd "$(dirname "${BASH_SOURCE[0]}")" && pwd)"
export CARGO_NET_OFFLINE=true
# optional: run against another copy of the repository (self-test, seeded changes) without touching
# /repo: SFV_REPO=<dir> [SFV_TARGET=<cargo target dir>] [SFV_OUT=<dir for evidence/ and replays/>]
REPO="${SFV_REPO:-/repo}"
TARGET="${SFV_TARGET:-$HERE/harness/target}"
export SFV_VERIF_DIR="${SFV_OUT:-$HERE}"
export SFV_KNOWN="$HERE/known_findings.txt"
EXTRA=()
if [ "$REPO" != /repo ]; then EXTRA=(--config "paths=[\"$REPO\"]"); fi
ORIG_PWD="$PWD"
cd "$HERE/harness" || exit 3
mkdir -p "$SFV_VERIF_DIR/evidence" "$SFV_VERIF_DIR/replays"
build() {
  local log="$TARGET/build.$1.log"
  mkdir -p "$TARGET"
  # serialise concurrent builds of the same target dir
  (
    flock 9
    if [ "$1" = dev ]; then cargo build --offline -q --target-dir "$TARGET" "${EXTRA[@]}" >"$log" 2>&1; else cargo build --offline --release -q --target-dir "$TARGET" "${EXTRA[@]}" >"$log" 2>&1; fi
  ) 9>"$TARGET/.build.$1.lock"
  local rc=$?
  if [ $rc -ne 0 ]; then
    echo "BUILD-FAILED profile=$1 (harness does not build against /repo's current tree; inconclusive)"
    tail -n 30 "$log"
    exit 3
  fi
}
build dev
build release
export SFV_DEV_BIN="$TARGET/debug/sfv"
export SFV_REL_BIN="$TARGET/release/sfv"
if [ "${1:-}" = build ]; then exit 0; fi
if [ "${1:-}" = replay ] && [ -n "${2:-}" ]; then
  case "$2" in /*) f="$2" ;; *) f="$ORIG_PWD/$2" ;; esac
  exec "$SFV_REL_BIN" replay "$f"
fi
exec "$SFV_REL_BIN" "$@"
