#!/usr/bin/env python3
"""Regenerates /verif/MANIFEST.json from the table below (single source of truth)."""
import json

CHECKS = {
 "C01": ("relational runtime monitor at the View boundary: chain vs stand-alone parts vs Script/Probe/Tap-instrumented trees, bit identity at every step",
         "Held on the executions explored: every unary wrapper over every inner view, every combinator over every pair, PFE/EFT in both slots, random triples (a quarter of the inner views of pairs and triples already given values when the wrapper is constructed over them, one in sixteen a Constant leaf) and random trees with Probe leaves, three scalars. Exploration is the right level: the property is a relation between observable executions of the real code and the space (views x views x N x inputs) is sampled, not enumerable.",
         "harness Dyn/Script/Probe/Tap views; release profile; trials cut at the first non-finite inner output"),
 "C02": ("reference-model monitor: batch definitions over the last min(t,N) values evaluated from the recorded history in exact rational arithmetic; real code run at the exact scalar (equality at every step) and at f64 (a-priori rounding envelope)",
         "Held on the executions explored: 10 views x N grid x 18 input classes (ties, zeros, negatives, spikes entering/leaving, evictions of the current extremum, flat windows, zero bases - counted by the oracle) at both scalars, incl. the mean()/variance() getters, plus long-history trials (2600-9000 values, windows up to 250) and, at f64, histories of 66 000-135 000 values compared at every 997th step, around the 65 536th / 131 072nd value and at the end.",
         "sample std of one value = 0; f64 Vst/Vsct steps with std inside the rounding envelope are left to C16"),
 "C03": ("relational monitor: two instances fed different prefixes (0..20N values, up to 2^40 x larger) and a common suffix; outputs compared from the K-th suffix value on, exactly at the exact scalar, within the envelope at f64",
         "Held on the executions explored: all 17 listed views x N grid x 6 prefix styles (lengths up to 4200 values; at the exact scalar cut to what 1.5 million exact operations pay for) x 4 suffix classes.",
         "documented hold steps (MyRSI flat window, Roc zero base) are identified by the exact oracle and skipped"),
 "C04": ("clause monitors (interval, constant, monotone, affine, defining recursion / kernel) on Sma, Ema, Alma at the exact scalar (exact inequalities and equalities) and at f64 (envelope)",
         "Held on the executions explored: default and custom alpha / sigma (2..16) / offset (0..1), N grid, input classes with exact zeros and sign changes, a fifth of the streams quoted in units of 2^-600 .. 2^600 and constants down to 3e-18 and up to 1e200; the views sit over a Script inner view that delivers nothing for 0-3 updates while the raw inputs are unrelated noise.",
         "Alma: both weight-assignment readings the statements admit are accepted"),
 "C05": ("reference-model monitor: gains/losses over the N most recent values from the recorded history in exact arithmetic; equality at the exact scalar, negation relation, conditioning-aware tolerance at f64",
         "Held on the executions explored: Rsi and MyRSI x N grid (plus 100, 257, 300, 520) x 12 input classes, one f64 trial in six in subnormal units.",
         "no claim where MyRSI has nothing to hold; f64 steps with G+L inside the rounding envelope are left to C07/C16"),
 "C06": ("reference-model monitor: Pearson / Kendall tau-a / centre-of-gravity of the current window from the recorded history in exact arithmetic; negation and order-only (strictly increasing maps) relations",
         "Held on the executions explored: CTI, NET, CoG x N 3..64 x 12 input classes + partially shuffled streams, one f64 trial in six in units of 2^-70 / 2^-300; CTI +-1 (1e-9) on exactly linear windows at a level of 2^30 / 2^40 in streams that began near zero.",
         "CTI at the exact scalar compared to 1e-12 (irrational root); f64 steps inside the cancellation envelope left to C07/C16"),
 "C07": ("range automaton on every Some output (f64 and f32; 16 ulps of the bound), Min/Max sandwich with real Min/Max views, Drawdown monotonicity; violations classified by the exact oracle on the failing window (predicates of the known findings)",
         "Held on the executions explored except for five recorded known findings (PFE's defining formula, Vsct residue, Sma/Alma running-sum residue, CoG's N-ulp excess): 16 documented ranges + sandwich + Drawdown x N 2..64 (+257) x 14 adversarial input classes, a quarter rescaled over 2^60, a third off the dyadic grid, streams to 1e5.",
         "'a few ulps' = 16 ulps of the bound; known findings are matched on (view, clause, exact-oracle predicate)"),
 "C08": ("readiness automaton per node (Taps on every node of single views and chains) + documented warm-up table (counted in delivered values, also over an inner view that starts delivering late) + Script children that deliver nothing; dev and release profiles, three scalars",
         "Held on the executions explored: every view x N grid x degenerate input classes, chains, long runs (1e4 quick / 1e6 thorough updates). 'For ever' is restated as no relapse and no non-finite value within those run lengths; no finite run decides the unbounded claim.",
         "a node is only judged while its own inputs stayed finite, in domain and below 2^40; a panic of the code under test ends the trial (C15 reports it)"),
 "C09": ("bounded-input stress runs against a length-independent bound derived from the reference model (finite, inside the bound, no growth from the first 4L to 16L updates) and a two-instance fading-memory relation (different prefixes, common tail, agreement to 1e-6 from the reference settle length on)",
         "Held on the executions explored: nine recursive views, all N 1..9 and a grid to 64 (+100, 1000), inputs incl. square waves through the resonance region, for Ema also of magnitude 0.75 f64::MAX; runs of L/4L/16L with L = 1e4 (quick) / 2e5 (thorough). Bounded restatement of an unbounded-time claim: no finite run decides 'however long'.",
         "bounds are sound but loose (forcing x l1 bound of the recursion): they catch instability and growth, not gain errors (C11 owns those)"),
 "C10": ("relational monitor over three executions x, y, a x + b y (exact scalar: equality; f64: envelope), incl. streams constructed so that the combined input/state is exactly 0; constant-input clauses with the reference settle length",
         "Held on the executions explored: eight linear views x parameter grids (Ema weights up to 1.25) x N grid, a, b incl. 0, negatives and 2^+-60, x streams that hover and jump by 1e8 times their recent range.",
         "second-order filters at the exact scalar limited to 100 steps"),
 "C11": ("reference-model monitor: batch re-evaluation of the difference equations (closed-form coefficients from the statement) from the complete input history, compared after every update at f64 (long streams, a quarter in units of 2^10 / 2^20) and at the exact scalar (short streams; hold branches exact), tolerance 1e-9 of natural scale (2e-5 for SuperSmoother / RoofingFilter, whose source spells 1.414 pi as 4.4422)",
         "Held on the executions explored: nine views x N from each minimum to 64 + {200, 1000} x gamma (0 .. 511/512) / smoother-length / MA grids x 10 input classes.",
         "crate conventions as named in the statement; 1.414 pi == 4.4422; f64 ratio steps with the reference denominator in rounding noise are skipped (counted)"),
 "C12": ("relational monitor over two executions x and a x + b / a x / -x for 37 (view, relation) pairs: exact scalar with arbitrary rational a, b (equality), f64 with a = 2^k for k from -200 to 200 and dyadic b up to 2^40 (bit identity; a fifth of those trials at a level of 2^30 / 2^34), f64 general (tolerance on well-conditioned windows)",
         "Held on the executions explored except for one recorded known finding (Vst at a level 1e9 times the spread, through WelfordOnline's m2 residue): all views of the statement's three lists x N grid x 8 input classes with ties.",
         "flat windows exempt only for Vst (returns the value) and Rsi under negation (returns 100)"),
 "C13": ("reference-model monitor: exact integer-scaled running sums (i128), running peak and largest relative decline, ln ratio; exact scalar (equality) and f64 at every step of streams of L, 4L, 16L values with one tolerance",
         "Held on the executions explored: three views x eight stream shapes (new peaks after deeper troughs, equal peaks, monotone, flats, three decades, a high level with a small spread), a third of them with the view constructed over an inner view that already has a history, a third of Drawdown's and LnReturn's f64 streams quoted in units of 2^-300, 2^-70 or 2^200, 16L ~ 3e5 (quick) / 1e7 (thorough), two streams beyond 2^24 values; f64 tolerance 1e-11 of scale (noise observed: 6e-14).",
         "positive inputs k/64 in [1,1000] (times an exact power of two for the ratio views)"),
 "C14": ("pointwise oracle over Script children (outputs dictated), bit-exact comparison after every update; two-history statelessness relation",
         "Held on the executions explored (all nine combinators x f64/f32/exact rational x seeded script pairs incl. zeros, -0, clip ties, denormals, adjacent floats, None prefixes; a third of Tanh's arguments where the function changes regime: 18..20 and 8..10 on a 2^-20 grid, 2^-34..2^-8, 2^5..2^60).",
         "children never relapse to None; libm tanh of the harness build is the one the crate reaches"),
 "C15": ("panic trap (catch_unwind + recording panic hook) around construction and every update()/last(), executed under rustc's run-time instrumentation (dev profile: debug assertions + overflow checks) and in the release profile",
         "Held on the executions explored: every view x full secondary-parameter grid x N (1..64 in thorough) x 18 input classes x stream lengths shorter than / about / far beyond the window, two-level chains with in-domain inner outputs, f64 and f32.",
         "constructor panics count as 'constructor rejects N'; inputs bounded by 2^20; Ema weights up to 1.5; one known finding (Alma at f32 with an underflowing first kernel weight)"),
 "C16": ("f64 (and f32) executions compared with exact arithmetic: exact batch oracle over the recent inputs for windowed views, the C11 reference model restarted on the last S(N) inputs for recursive ones; drift clause on long three-decade streams at 200+ checkpoints (every step around the 65 536th / 131 072nd value; every step at f32 for windows up to 16), flat clause after volatile prefixes",
         "Held on the executions explored except for the recorded known findings (Vst / Vsct and - at f32 - WelfordOnline through the running m2's residue, PFE over a Sma, LaguerreRSI's conditioning at f32): 25 views + PFE / EFT over three smoothers x N grid (and 300 / 400 / 520 on 1e6 values), three-decade streams of 1e5 (quick) / 1e6 (thorough) values of three shapes (walk, climb-then-hover, sweep-and-hover), dyadic and non-dyadic grids, f32 in both tiers (incl. flat trials at N = 400..1024 held for up to 10N values), flat values incl. 0.1, 1/3 and 0 after three-decade, high-level / small-spread and 2^50-scaled prefixes.",
         "natural scale per output class as stated in the evidence; WelfordRolling's drift is decided by C13"),
 "C17": ("relational runtime monitor: twin instances, extra and omitted last() calls, clones (also taken during warm-up) with divergent continuations, twin on another thread; bit identity",
         "Held on the executions explored: all views and random chains, random clone points, three interleavings of original and clone.",
         "Add has no Clone (clone clause vacuous there); release profile"),
 "C18": ("resource meter: counting global allocator in the harness, live bytes owned by the instance sampled after L, 4L, 16L updates",
         "Held on the executions explored: every view x N grid, PFE/EFT with each MA, random chains (a third with a component that never becomes ready), nine input modes (noise, constant, ties, flat stretches, saw-tooth, rising and falling ramps, random walk at a high level, noisy up-trend); bytes(4L) <= bytes(L) and bytes(16L) <= bytes(L) as exact integer comparisons (16L up to 4e6 in thorough). Restates 'bound independent of length'; a growth slower than one capacity doubling per 16x length would escape.",
         "f64, release profile; bytes requested on the driving thread"),
}
DESIGN_REF = {k: "DESIGN.md section 3, " + k for k in CHECKS}
ALL = ["C%02d" % i for i in range(1, 19)]
NOT_YET = "monitor designed in DESIGN.md section 3 but not built yet (work in progress); not claimed until it runs"

def main():
    checks = []
    for pid in ALL:
        if pid not in CHECKS:
            continue
        tech, text, note = CHECKS[pid]
        checks.append({
            "property_id": pid,
            "quick_cmd": "./run.sh %s quick" % pid,
            "thorough_cmd": "./run.sh %s thorough" % pid,
            "evidence_file": "/verif/evidence/%s.json" % pid,
            "replay_cmd_template": "./run.sh replay {path}",
            "engine": "sfv",
            "level_claimed": {"category": "exploration", "text": text, "design_ref": DESIGN_REF[pid]},
            "level_note": note,
            "technique": "runtime monitoring: " + tech,
        })
    m = {
        "version": 1,
        "setup_cmd": "./run.sh build",
        "hooks": {
            "guard": "--cfg sliding_features_verif",
            "enable": "no hook is needed: every observation point is the public View API (update/last, mean()/variance() getters); the guard name is reserved, no source commit uses it. Checks build /repo's working tree as a path dependency of /verif/harness.",
            "baseline_off_cmd": "cd /repo && cargo test --workspace --no-fail-fast --offline",
            "source_commits": [],
            "add_only": True,
        },
        "engines": [{
            "name": "sfv",
            "path": "/verif/harness",
            "serves_properties": sorted(CHECKS.keys()),
            "kind_free_text": "Rust harness crate path-depending on /repo: runs the real views under generated hostile workloads at f64, f32 and an exact-rational scalar, with monitors (reference-model oracles, relations between executions, range/readiness automata, panic trap in dev+release profiles, counting allocator) observing every update/last event",
        }],
        "checks": checks,
        "notes": "Exit codes of every check: 0 held on everything explored, 1 VIOLATION, 2 inconclusive (coverage cell unreached / watchdog), 3 harness does not build against the tree. Known findings: /verif/known_findings.txt.",
        "not_applicable": [{"property_id": p, "reason": NOT_YET} for p in ALL if p not in CHECKS],
    }
    json.dump(m, open("/verif/MANIFEST.json", "w"), indent=1)
    print("wrote MANIFEST.json with", len(checks), "checks")

main()
